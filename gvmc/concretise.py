"""Turn a symbolic hopping trace into a real trajectory + site structure in a given lattice.

Atom a at frame t is placed at  site_s + rho * R_s * u_k  (Cartesian), rho = f/2 for an inner
symbol, (1+f)/2 for a shell symbol, and at a void point (>= 1.6 R_max + 0.3 A from every site) for
'none'. Fractional coordinates are NOT wrapped into [0,1): crossing cell faces is the point.
"""

from __future__ import annotations

import itertools

import numpy as np

from .alphabets import DIRS
from .ref import geom, hop


class Unrealisable(Exception):
    pass


def void_points(M, site_frac, rmax, n):
    """n distinct fractional points far from every site (deterministic search on a grid)."""
    need = 1.6 * rmax + 0.3
    grid = [0.25, 0.75, 0.5, 0.0, 0.125, 0.625, 0.375, 0.875]
    out = []
    for p in itertools.product(grid, repeat=3):
        p = np.array(p)
        d = geom.min_image_dist(p, np.asarray(site_frac), M)
        if d.min() >= need and all(geom.min_image_dist(p, q, M) > 0.5 for q in out):
            out.append(p)
            if len(out) == n:
                return out
    raise Unrealisable(f'only {len(out)} void points found (need {n})')


def check_sites_separated(M, site_frac, radii):
    D = geom.dist_matrix(site_frac, site_frac, M)
    n = len(site_frac)
    for i in range(n):
        for j in range(i + 1, n):
            if D[i, j] < radii[i] + radii[j] + 0.05:
                raise Unrealisable(f'sites {i},{j} overlap: d={D[i, j]:.3f}')


def concretise(trace, M, site_frac, radii, f, framework=(), vib_phase=0):
    """-> coords (L, A+F, 3) fractional unwrapped; floating atoms first, then framework atoms.
    framework: list of fractional base positions; they vibrate with 0.05 A amplitude."""
    M = np.asarray(M, dtype=float)
    Minv = np.linalg.inv(M)
    L, A = len(trace), len(trace[0])
    site_frac = np.asarray(site_frac, dtype=float)
    site_cart = site_frac @ M
    rmax = max(radii)
    uses_none = any(x == 0 for row in trace for x in row)
    voids = void_points(M, site_frac, rmax, A) if uses_none else None
    F = len(framework)
    coords = np.zeros((L, A + F, 3))
    for t in range(L):
        for a in range(A):
            sym = trace[t][a]
            u = DIRS[(3 * t + 5 * a + vib_phase) % len(DIRS)]
            if sym == 0:
                cart = voids[a] @ M + 0.1 * u
            else:
                s = hop.outer(sym)
                if hop.inner(sym) != hop.NOSITE:
                    rho = f / 2
                else:
                    if f >= 1:
                        raise Unrealisable('shell symbol with inner fraction 1')
                    rho = (1 + f) / 2
                cart = site_cart[s] + rho * radii[s] * u
            coords[t, a] = cart @ Minv
        for k, base in enumerate(framework):
            u = DIRS[(2 * t + 7 * k + 1 + vib_phase) % len(DIRS)]
            coords[t, A + k] = (np.asarray(base) @ M + 0.05 * u) @ Minv
    return coords


def make_trajectory(coords, species, M, time_step=1e-15, temperature=300.0, species_cls='Species', **kw):
    from pymatgen.core import Element, Lattice, Species

    from gemdat.trajectory import Trajectory

    if species_cls == 'SpeciesOx':
        ox = {'Li': 1, 'Na': 1, 'S': -2, 'P': 5, 'Si': 4, 'O': -2}
        species = [Species(s, ox.get(s, 0)) if isinstance(s, str) else s for s in species]
    else:
        cls = Species if species_cls == 'Species' else Element
        species = [cls(s) if isinstance(s, str) else s for s in species]
    return Trajectory(
        species=list(species),
        coords=np.asarray(coords, dtype=float),
        lattice=Lattice(np.asarray(M)),
        time_step=time_step,
        metadata={'temperature': temperature},
        constant_lattice=True,
        **kw,
    )


def make_sites(site_frac, labels, M, specie='Li'):
    from pymatgen.core import Lattice, Structure

    return Structure(
        Lattice(np.asarray(M)),
        [specie] * len(site_frac),
        np.asarray(site_frac, dtype=float),
        labels=list(labels) if labels is not None else None,
        to_unit_cell=False,
    )


_TRAJ = {}


def vib_traj(A, L, M, dt, species=None, temperature=400.0):
    key = (A, L, np.asarray(M).tobytes(), dt)
    if key not in _TRAJ:
        if len(_TRAJ) > 200:
            _TRAJ.clear()
        Minv = np.linalg.inv(np.asarray(M))
        coords = np.zeros((L, A, 3))
        for t in range(L):
            for a in range(A):
                base = np.array([0.2 + 0.3 * a, 0.4, 0.6]) @ np.asarray(M)
                amp = 0.1 + 0.05 * ((t * 7 + a * 3) % 4)
                coords[t, a] = (base + amp * DIRS[(3 * t + 5 * a) % 12]) @ Minv
        _TRAJ[key] = coords
    return make_trajectory(_TRAJ[key], species or ['Li'] * A, M, time_step=dt, temperature=temperature)


