"""Independent shortest-path model on a periodic voxel grid (pure Python, no gemdat / networkx)."""

from __future__ import annotations

import heapq
import itertools
import math

INF = float('inf')


def offsets(diagonal=True):
    if diagonal:
        return [v for v in itertools.product((-1, 0, 1), repeat=3) if any(v)]
    return [v for v in itertools.product((-1, 0, 1), repeat=3) if sum(abs(x) for x in v) == 1]


def admissible(F, thr):
    """dict voxel -> energy for 0 <= F < thr. F: nested list / array indexable by tuple."""
    import numpy as np

    F = np.asarray(F, dtype=float)
    return {tuple(int(i) for i in idx): float(F[idx]) for idx in np.ndindex(F.shape) if 0 <= F[idx] < thr}


def neighbours(node, shape, offs):
    out = set()
    for o in offs:
        out.add(tuple((n + d) % s for n, d, s in zip(node, o, shape)))
    return out


def is_neighbour(a, b, shape, offs):
    return b in neighbours(a, shape, offs)


def edge_cost(E, u, v, criterion, thr):
    if criterion == 'hops':
        return 1.0
    w = 0.5 * (E[u] + E[v])
    if criterion == 'sum':
        return w
    if criterion == 'exp':
        e = math.exp(w)
        return e if e < thr else thr
    raise ValueError(criterion)


def dijkstra(E, shape, offs, src, criterion, thr):
    """All optimal costs from src under an additive criterion."""
    dist = {src: 0.0}
    heap = [(0.0, src)]
    done = set()
    while heap:
        d, u = heapq.heappop(heap)
        if u in done:
            continue
        done.add(u)
        for v in neighbours(u, shape, offs):
            if v not in E or v == u:
                continue
            nd = d + edge_cost(E, u, v, criterion, thr)
            if nd < dist.get(v, INF):
                dist[v] = nd
                heapq.heappush(heap, (nd, v))
    return dist


def bottleneck(E, shape, offs, src):
    """Minimal possible maximum node energy along a path from src to every reachable voxel."""
    best = {src: E[src]}
    heap = [(E[src], src)]
    done = set()
    while heap:
        d, u = heapq.heappop(heap)
        if u in done:
            continue
        done.add(u)
        for v in neighbours(u, shape, offs):
            if v not in E or v == u:
                continue
            nd = max(d, E[v])
            if nd < best.get(v, INF):
                best[v] = nd
                heapq.heappush(heap, (nd, v))
    return best


def path_cost(E, path, criterion, thr):
    return sum(edge_cost(E, u, v, criterion, thr) for u, v in zip(path, path[1:]))
