"""Reference semantics of the ion-hopping model (pure Python, no gemdat / pymatgen import).

A trace is a list (frames) of tuples (atoms) of symbols:
    0            atom is at no site
    1 + 2*s      atom is inside the inner sphere of site s
    2 + 2*s      atom is inside site s but outside its inner sphere ("shell")
"""

from __future__ import annotations

import itertools
from collections import Counter

NOSITE = -1


def outer(sym: int) -> int:
    return NOSITE if sym == 0 else (sym - 1) // 2


def inner(sym: int) -> int:
    return (sym - 1) // 2 if sym % 2 == 1 else NOSITE


def n_symbols(n_sites: int, with_shell: bool = True) -> list[int]:
    if with_shell:
        return list(range(1 + 2 * n_sites))
    return [0] + [1 + 2 * s for s in range(n_sites)]


def state_arrays(trace):
    """-> (outer[L][A], inner[L][A]) as nested lists."""
    return ([[outer(x) for x in row] for row in trace], [[inner(x) for x in row] for row in trace])


def change_log(trace):
    """Rows (atom, site_before, site_after, inner_before, inner_after, t) for every (atom, t) where
    the outer or the inner state differs between frame t and t+1; sorted by (atom, t)."""
    L = len(trace)
    A = len(trace[0])
    rows = []
    for a in range(A):
        for t in range(L - 1):
            x, y = trace[t][a], trace[t + 1][a]
            if outer(x) != outer(y) or inner(x) != inner(y):
                rows.append((a, outer(x), outer(y), inner(x), inner(y), t))
    return rows


def change_log_arrays(o, i):
    """Change-log computed from outer / inner state arrays [frame][atom] (no assumption that inner is none or outer)."""
    L, A = len(o), len(o[0])
    rows = []
    for a in range(A):
        for t in range(L - 1):
            if o[t][a] != o[t + 1][a] or i[t][a] != i[t + 1][a]:
                rows.append((a, int(o[t][a]), int(o[t + 1][a]), int(i[t][a]), int(i[t + 1][a]), t))
    return rows


def outer_change_times(trace):
    L = len(trace)
    A = len(trace[0])
    return [(a, t) for a in range(A) for t in range(L - 1) if outer(trace[t][a]) != outer(trace[t + 1][a])]


def prev_next(trace):
    """states_prev[t][a]: most recent site occupied at or before t (or -1);
    states_next[t][a]: next site occupied at or after t (or -1)."""
    L = len(trace)
    A = len(trace[0])
    prev = [[NOSITE] * A for _ in range(L)]
    nxt = [[NOSITE] * A for _ in range(L)]
    for a in range(A):
        cur = NOSITE
        for t in range(L):
            s = outer(trace[t][a])
            if s != NOSITE:
                cur = s
            prev[t][a] = cur
        cur = NOSITE
        for t in range(L - 1, -1, -1):
            s = outer(trace[t][a])
            if s != NOSITE:
                cur = s
            nxt[t][a] = cur
    return prev, nxt


def default_jumps(trace):
    """Consecutive pairs of distinct sites in each atom's visited-site sequence.
    -> list of (atom, origin, destination, start=last frame at origin, stop=first frame at dest)."""
    L = len(trace)
    A = len(trace[0])
    out = []
    for a in range(A):
        cur = None
        last = None
        for t in range(L):
            s = outer(trace[t][a])
            if s == NOSITE:
                continue
            if cur is None or s == cur:
                cur, last = s, t
            else:
                out.append((a, cur, s, last, t))
                cur, last = s, t
    return out


def count_matrix(pairs, n_sites):
    m = [[0] * n_sites for _ in range(n_sites)]
    for i, j in pairs:
        if i != NOSITE and j != NOSITE:
            m[i][j] += 1
    return m


def occupancy(trace, n_sites):
    """Fraction of frames in which site i holds an atom (counting atom-frames)."""
    L = len(trace)
    c = Counter()
    for row in trace:
        for x in row:
            s = outer(x)
            if s != NOSITE:
                c[s] += 1
    return [c[i] / L for i in range(n_sites)]


def has_double_occupancy(trace):
    for row in trace:
        sites = [outer(x) for x in row if outer(x) != NOSITE]
        if len(sites) != len(set(sites)):
            return True
    return False


def all_traces(n_atoms, n_sites, length, with_shell=True, prefix=()):
    """Every trace of the model with the given frame-0.. prefix (prefix = tuple of frame tuples)."""
    syms = n_symbols(n_sites, with_shell)
    frames = list(itertools.product(syms, repeat=n_atoms))
    rest = length - len(prefix)
    for tail in itertools.product(frames, repeat=rest):
        yield list(prefix) + list(tail)


def frame_alphabet(n_atoms, n_sites, with_shell=True):
    syms = n_symbols(n_sites, with_shell)
    return list(itertools.product(syms, repeat=n_atoms))
