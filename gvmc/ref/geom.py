"""Independent periodic geometry (numpy only; no gemdat, no pymatgen).

Lattices are 3x3 matrices whose ROWS are the lattice vectors a, b, c (Cartesian, Angstrom);
cart = frac @ M.
"""

from __future__ import annotations

import itertools
import math

import numpy as np

_IMAGES = {}


def images(K=2):
    if K not in _IMAGES:
        _IMAGES[K] = np.array(list(itertools.product(range(-K, K + 1), repeat=3)), dtype=float)
    return _IMAGES[K]


def min_image_vec(dfrac, M, K=2):
    """Shortest Cartesian vector equivalent to the fractional difference(s) dfrac (..., 3)."""
    d = np.asarray(dfrac, dtype=float)
    shp = d.shape[:-1]
    d = d.reshape(-1, 3)
    d = d - np.round(d)
    cand = (d[:, None, :] + images(K)[None, :, :]) @ np.asarray(M, dtype=float)  # (n, I, 3)
    n2 = np.einsum('nik,nik->ni', cand, cand)
    j = np.argmin(n2, axis=1)
    out = cand[np.arange(len(d)), j]
    return out.reshape(*shp, 3)


def min_image_dist(fa, fb, M, K=2):
    """Minimum-image distances between fractional points fa (..., 3) and fb (..., 3) (broadcast)."""
    v = min_image_vec(np.asarray(fb, dtype=float) - np.asarray(fa, dtype=float), M, K)
    return np.sqrt(np.einsum('...k,...k->...', v, v))


def dist_matrix(fa, fb, M, K=2):
    fa = np.asarray(fa, dtype=float).reshape(-1, 3)
    fb = np.asarray(fb, dtype=float).reshape(-1, 3)
    return min_image_dist(fa[:, None, :], fb[None, :, :], M, K)


def from_parameters(a, b, c, alpha, beta, gamma):
    """Lattice matrix with a along x and b in the xy plane."""
    al, be, ga = (math.radians(x) for x in (alpha, beta, gamma))
    ax = np.array([a, 0.0, 0.0])
    bx = np.array([b * math.cos(ga), b * math.sin(ga), 0.0])
    cx = c * math.cos(be)
    cy = c * (math.cos(al) - math.cos(be) * math.cos(ga)) / math.sin(ga)
    cz = math.sqrt(max(c * c - cx * cx - cy * cy, 0.0))
    return np.array([ax, bx, [cx, cy, cz]])


def rotation(euler_deg):
    """Proper rotation matrix R (3x3) from z-y-x Euler angles in degrees; rows of M map to M @ R.T."""
    a, b, c = (math.radians(x) for x in euler_deg)
    Rz = np.array([[math.cos(a), -math.sin(a), 0], [math.sin(a), math.cos(a), 0], [0, 0, 1]])
    Ry = np.array([[math.cos(b), 0, math.sin(b)], [0, 1, 0], [-math.sin(b), 0, math.cos(b)]])
    Rx = np.array([[1, 0, 0], [0, math.cos(c), -math.sin(c)], [0, math.sin(c), math.cos(c)]])
    return Rz @ Ry @ Rx


def cube_rotations():
    """The 24 proper rotations of the cube as signed permutation matrices."""
    out = []
    for perm in itertools.permutations(range(3)):
        for signs in itertools.product([1, -1], repeat=3):
            R = np.zeros((3, 3))
            for i, (p, s) in enumerate(zip(perm, signs)):
                R[i, p] = s
            if abs(np.linalg.det(R) - 1) < 1e-9:
                out.append(R)
    return out


def perpendicular_widths(M):
    M = np.asarray(M, dtype=float)
    vol = abs(np.linalg.det(M))
    w = []
    for i in range(3):
        n = np.cross(M[(i + 1) % 3], M[(i + 2) % 3])
        w.append(vol / np.linalg.norm(n))
    return w


def selftest():
    fails = []
    # K=2 vs K=3 on a nasty cell; plus a hand-computed case
    M = from_parameters(5, 6, 7, 55, 110, 75)
    g = np.array(list(itertools.product([0.0, 0.13, 0.5, 0.77, 0.98], repeat=3)))
    d2 = min_image_dist(np.zeros(3), g, M, 2)
    d3 = min_image_dist(np.zeros(3), g, M, 3)
    if not np.allclose(d2, d3, atol=1e-12):
        fails.append('geom: K=2 and K=3 minimum image disagree')
    C = np.eye(3) * 4.0
    if abs(min_image_dist([0.05, 0, 0], [0.95, 0, 0], C) - 0.4) > 1e-12:
        fails.append('geom: cubic wrap distance wrong')
    if abs(np.linalg.det(rotation((30, 40, 50))) - 1) > 1e-12:
        fails.append('geom: rotation not proper')
    if len(cube_rotations()) != 24:
        fails.append('geom: cube rotations')
    return fails
