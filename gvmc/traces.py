"""Sharding of the hopping-model trace space by frame prefixes (deterministic, exhaustive)."""

from __future__ import annotations

import itertools

from .ref import hop


def make_shards(bounds, target, extra=None):
    """bounds: list of dicts {A,S,Lmin,Lmax,shell}. One shard = all traces of exact length L with a
    fixed prefix of frames, sized <= target traces."""
    out = []
    for b in bounds:
        A, S, shell = b['A'], b['S'], b.get('shell', True)
        nf = len(hop.frame_alphabet(A, S, shell))
        for L in range(b.get('Lmin', 2), b['Lmax'] + 1):
            plen = 0
            while nf ** (L - plen) > target and plen < L - 1:
                plen += 1
            for prefix in itertools.product(range(nf), repeat=plen):
                sh = {'A': A, 'S': S, 'L': L, 'shell': shell, 'prefix': list(prefix)}
                for k, v in b.items():
                    if k not in ('A', 'S', 'Lmin', 'Lmax', 'shell'):
                        sh[k] = v
                if extra:
                    sh.update(extra)
                out.append(sh)
    return out


def iter_shard(shard):
    frames = hop.frame_alphabet(shard['A'], shard['S'], shard.get('shell', True))
    prefix = [list(frames[k]) for k in shard['prefix']]
    rest = shard['L'] - len(prefix)
    for tail in itertools.product(frames, repeat=rest):
        yield prefix + [list(f) for f in tail]


def tree_nodes(shard):
    """Number of nodes of the execution tree below the shard prefix (the model states visited)."""
    nf = len(hop.frame_alphabet(shard['A'], shard['S'], shard.get('shell', True)))
    rest = shard['L'] - len(shard['prefix'])
    return sum(nf**k for k in range(1, rest + 1))
