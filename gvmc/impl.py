"""Adapters that drive the *real* GEMDAT code from model-level objects (state-level replay)."""

from __future__ import annotations

import functools

import numpy as np

from .ref import hop


@functools.lru_cache(maxsize=64)
def dummy_sites(n_sites: int, labels: tuple | None = None, a: float = 10.0):
    from pymatgen.core import Lattice, Structure

    coords = [[(i + 0.5) / (n_sites + 1), 0.3, 0.6] for i in range(n_sites)]
    return Structure(
        Lattice.cubic(a), ['Li'] * n_sites, coords, labels=list(labels) if labels else None
    )


def arrays(trace):
    o, i = hop.state_arrays(trace)
    return np.array(o, dtype=int), np.array(i, dtype=int)


def real_events(trace):
    from gemdat.transitions import _calculate_transition_events

    states, inner = arrays(trace)
    return _calculate_transition_events(atom_sites=states, atom_inner_sites=inner)


def make_transitions(trace, n_sites, labels=None, trajectory=None, diff_trajectory=None, sites=None, events=None):
    from gemdat.transitions import Transitions, _calculate_transition_events

    states, inner = arrays(trace)
    if events is None:
        events = _calculate_transition_events(atom_sites=states, atom_inner_sites=inner)
    return Transitions(
        trajectory=trajectory,
        diff_trajectory=diff_trajectory,
        sites=sites if sites is not None else dummy_sites(n_sites, labels),
        events=events,
        states=states,
        inner_states=inner,
    )


def event_rows(df):
    cols = ['atom index', 'start site', 'destination site', 'start inner site', 'destination inner site', 'time']
    return [tuple(int(v) for v in row) for row in df[cols].to_numpy()]


def jump_rows(df):
    cols = ['atom index', 'start site', 'destination site', 'start time', 'stop time']
    return [tuple(int(v) for v in row) for row in df[cols].to_numpy()]


def clear_weak_caches():
    """Reset every weak_lru_cache of gemdat through the closure handle (long-lived workers)."""
    import gemdat.collective
    import gemdat.jumps
    import gemdat.metrics
    import gemdat.transitions

    n = 0
    for cls in (
        gemdat.transitions.Transitions,
        gemdat.jumps.Jumps,
        gemdat.metrics.TrajectoryMetrics,
        gemdat.collective.Collective,
    ):
        for name, attr in vars(cls).items():
            lru = lru_of(attr)
            if lru is not None:
                lru.cache_clear()
                n += 1
    return n


def is_memoised(method):
    """True for a function wrapped by gemdat's memoisation decorator, whatever its implementation: either the
    functools.lru_cache seam is visible in the closure, or the wrapper is a function defined in gemdat/caching.py."""
    if lru_of(method) is not None:
        return True
    code = getattr(method, '__code__', None)
    return bool(getattr(method, '__wrapped__', None) is not None and code is not None and code.co_filename.replace('\\', '/').endswith('gemdat/caching.py'))


def lru_of(method):
    """The functools.lru_cache object behind a weak_lru_cache-decorated function (or None)."""
    clo = getattr(method, '__closure__', None)
    if not clo:
        return None
    for cell in clo:
        try:
            v = cell.cell_contents
        except ValueError:
            continue
        if hasattr(v, 'cache_info') and hasattr(v, 'cache_clear'):
            return v
    return None
