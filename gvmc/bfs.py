"""E2: explicit-state breadth-first search over operation histories on REAL objects.

A state is identified by the history that reaches it; it is (re)built by replaying the history on
fresh objects (`build`), so live objects are never copied. `canon(world)` gives the canonical hash of
the real internal state used for de-duplication; `enabled(world, hist)` the finite menu of events;
`check(world_builder, hist)` evaluates the oracle for the state reached by `hist` (it receives a
builder so that every observation can be made on a fresh replica and does not disturb the state).
"""

from __future__ import annotations

import collections


class BFSStats:
    def __init__(self):
        self.states = 0
        self.transitions = 0
        self.max_depth = 0
        self.fixpoint = False
        self.by_depth = collections.Counter()
        self.first_violation_hist = None


def explore(build, enabled, canon, check, max_depth, root=(), on_violation=None, max_states=None, check_world=None):
    """Generic BFS. `root` is the initial history (tuple of events).
    check(build, hist) -> list of (kind, detail); alternatively check_world(world, hist) is given the
    already built successor world (for oracles evaluated while replaying). Returns BFSStats."""
    st = BFSStats()
    w0 = build(root)
    seen = {canon(w0)}
    frontier = collections.deque([tuple(root)])
    st.states = 1
    for kind, detail in (check_world(w0, tuple(root)) if check_world else check(build, tuple(root))):
        if on_violation:
            on_violation(kind, tuple(root), detail)
    exhausted = True
    while frontier:
        hist = frontier.popleft()
        depth = len(hist) - len(root)
        if depth >= max_depth:
            exhausted = False
            continue
        world = build(hist)
        for ev in enabled(world, hist):
            nxt_hist = hist + (ev,)
            nxt = build(nxt_hist)
            st.transitions += 1
            k = canon(nxt)
            if k in seen:
                continue
            seen.add(k)
            st.states += 1
            st.by_depth[depth + 1] += 1
            st.max_depth = max(st.max_depth, depth + 1)
            for kind, detail in (check_world(nxt, nxt_hist) if check_world else check(build, nxt_hist)):
                if st.first_violation_hist is None:
                    st.first_violation_hist = nxt_hist
                if on_violation:
                    on_violation(kind, nxt_hist, detail)
            if max_states is not None and st.states >= max_states:
                return st
            frontier.append(nxt_hist)
    st.fixpoint = exhausted
    return st
