"""C15 — select/slice/split/extend and read-only queries never alter the data.

Engine E2: explicit-state BFS over histories of Trajectory API calls on real objects. A world holds
up to 3 live trajectories (source + derived). Every state is rebuilt by replaying its history on
fresh objects; states are de-duplicated by the exact bytes of the real internal representation
(mode flag, coords, base positions, lattice, species, time step, metadata) together with the
reference model; in every new state every live object is observed (each observation on its own
fresh replica) and compared with a plain-numpy reference trajectory.
"""

from __future__ import annotations

import hashlib
import itertools
import os
import tempfile

import numpy as np

from .. import alphabets, bfs, concretise
from ..core import Result
from ..ref import geom

ID = 'C15'
LEVEL = 'model_checking'
ENGINE = 'E2-bfs'
RULE = (
    'BFS over operation histories; roots: 4 base trajectories (position mode generic / displacement mode triclinic / '
    'raw unwrapped / face values 0,-1e-17,1-1e-16,>1) of 4 frames x 3 atoms x 2 species; read-only menu {positions, '
    'displacements, cumulative_displacements, distances, msd, tracer_diffusivity, drift, to_volume, get_structure, len, '
    'get_lattice, transitions}; deriving menu {filter x3, every slice a:b:c with a,b in {None,-4..4}, c in {None,1,2,-1} '
    'selecting >=1 frame, list index, split(n,equal)[k], extend(other), drift correction x2, center_of_mass, cache round '
    'trip}; observations: positions, displacements, distances, metadata, filter, slice, tracer diffusivity + MSD; <= 3 live objects, derivation nesting <= 2; state = exact bytes of the real representation + reference'
    '; bases use Species, oxidation-state species and Elements; event extend-foreign (a run recorded at another time step: refusal is a no-op)'
)
LEVEL_TEXT = (
    'Explicit-state model checking of the real Trajectory object: all call sequences up to the depth bound '
    '(read-only sub-graph explored to fixpoint where it closes) with every slice shape; after every transition all '
    'live objects must still answer every query like a plain-numpy reference of the same selection, whichever '
    'internal representation the hidden mode switch left them in.'
)
LEVEL_NOTE = 'Trusted: the numpy reference (positions mod 1, selections by plain indexing). Merging states by exact bytes is sound because every menu operation is a deterministic function of exactly the hashed fields. Tolerance 1e-9 on the circle; range [0,1) exact.'
TECHNIQUE = 'explicit-state BFS over API-call histories on real objects with canonical state hashing, against a reference model'
ASSUMPTIONS = ['constant-lattice trajectories', 'base steps small enough that no selection produces a half-cell step (two minimum images)']

DEPTH = {'quick': 3, 'thorough': 4}
CAPS = {'thorough': 2400}
MAX_LIVE = 3
SITE_FRAC = np.array(alphabets.SITESETS['S3'])


class Ref:
    """Plain reference trajectory: canonical positions (T,N,3) in [0,1), symbols, lattice, dt, metadata."""

    def __init__(self, pos, syms, M, dt, meta, nest=0):
        p = np.mod(np.asarray(pos, dtype=float), 1.0)
        p[p == 1.0] = 0.0
        self.pos, self.syms, self.M, self.dt, self.meta, self.nest = p, list(syms), np.asarray(M), dt, dict(meta), nest

    def key(self):
        return (np.round(self.pos, 9).tobytes(), tuple(self.syms), self.M.tobytes(), self.dt, tuple(sorted(self.meta.items())))

    def steps(self):
        d = np.diff(self.pos, axis=0)
        d -= np.round(d)
        return np.concatenate([np.zeros((1,) + self.pos.shape[1:]), d], axis=0)


def bases():
    out = []
    rng_steps = np.array([[[0.11, -0.05, 0.02], [0.0, 0.07, -0.12], [-0.09, 0.1, 0.04]],
                          [[0.08, 0.03, -0.11], [-0.12, 0.0, 0.05], [0.02, -0.06, 0.1]],
                          [[-0.1, 0.09, 0.07], [0.05, -0.11, 0.0], [0.12, 0.01, -0.03]]])
    x0 = np.array([[0.02, 0.5, 0.97], [0.4, 0.95, 0.3], [0.93, 0.08, 0.55]])
    un = np.concatenate([x0[None], x0[None] + np.cumsum(rng_steps, axis=0)], axis=0)
    cubic = np.eye(3) * 6.0
    tric = alphabets.pmg_default(5, 6, 7, 70, 80, 100)
    out.append(('pos-wrapped-cubic', dict(coords=np.mod(un, 1), M=cubic, mode='pos')))
    out.append(('disp-mode-triclinic', dict(coords=np.concatenate([np.zeros((1, 3, 3)), rng_steps]), M=tric, mode='disp', base=x0, species_cls='SpeciesOx')))
    out.append(('pos-raw-unwrapped-cubic', dict(coords=un + np.array([1.0, -2.0, 0.0]), M=cubic, mode='pos')))
    face = np.mod(un, 1)
    face[:, 0, 0] = [-1e-17, 1 - 1e-16, 0.0, 1.6]
    face[:, 1, 1] = [1.0, 1e-17, 0.25, 0.2]
    out.append(('pos-face-values-triclinic', dict(coords=face, M=tric, mode='pos', species_cls='Element')))
    return out


SYMS = ['Li', 'S', 'Li']
META = {'temperature': 300.0}
DT = 2e-15


def make_base(spec):
    from pymatgen.core import Lattice, Species

    from gemdat.trajectory import Trajectory

    from pymatgen.core import Element

    # the atoms may be plain species, elements, or species carrying an oxidation state (Li+, S2-): selection is by symbol
    cls = spec.get('species_cls', 'Species')
    species = [Species(s) for s in SYMS] if cls == 'Species' else ([Element(s) for s in SYMS] if cls == 'Element' else [Species(s, {'Li': 1, 'S': -2}[s]) for s in SYMS])
    kw = dict(species=species, lattice=Lattice(spec['M']), time_step=DT, metadata=dict(META), constant_lattice=True)
    if spec['mode'] == 'disp':
        t = Trajectory(coords=np.array(spec['coords'], dtype=float), coords_are_displacement=True, base_positions=np.array(spec['base'], dtype=float), **kw)
        pos = spec['base'][None] + np.cumsum(spec['coords'], axis=0)
    else:
        t = Trajectory(coords=np.array(spec['coords'], dtype=float), **kw)
        pos = spec['coords']
    return t, Ref(pos, SYMS, spec['M'], DT, META)


# ------------------------------------------------------------------ operations
READ_OPS = ['positions', 'displacements', 'cumdisp', 'distances', 'msd', 'tracer', 'drift', 'to_volume', 'structure0', 'len', 'lattice', 'transitions', 'com', 'driftcorr-S']


def all_slices(L=4):
    vals = [None] + list(range(-L, L + 1))
    out = []
    seen = set()
    for a, b, c in itertools.product(vals, vals, [None, 1, 2, -1]):
        sel = tuple(range(L)[slice(a, b, c)])
        if len(sel) >= 1:
            out.append((a, b, c))
    return out


def derive_ops(tier):
    ops = [('filter', 'Li'), ('filter', ('Li', 'S')), ('filter', 'S')]
    sl = all_slices(4)
    if tier == 'quick':
        # every distinct selected frame tuple once per step sign, with varied spellings of the bounds
        seen = {}
        for a, b, c in sl:
            sel = tuple(range(4)[slice(a, b, c)])
            seen.setdefault((sel, c), (a, b, c))
            if (a is not None and a < 0) or (b is not None and b < 0):
                seen[(sel, c, 'neg')] = (a, b, c)
        sl = sorted(set(seen.values()), key=repr)
    ops += [('slice', s) for s in sl]
    ops += [('index', (0, 2)), ('index', (3, 1))]
    ops += [('split', (2, False, 0)), ('split', (2, False, 1)), ('split', (2, True, 1)), ('split', (3, False, 2)), ('split', (3, True, 0))]
    ops += [('driftcorr', None), ('cache', None)]
    return ops


def apply_read(t, name):
    if name == 'positions':
        return t.positions
    if name == 'displacements':
        return t.displacements
    if name == 'cumdisp':
        return t.cumulative_displacements
    if name == 'distances':
        return t.distances_from_base_position()
    if name == 'msd':
        return t.mean_squared_displacement()
    if name == 'tracer':
        return t.metrics().tracer_diffusivity(dimensions=3)
    if name == 'drift':
        return t.drift()
    if name == 'to_volume':
        return t.to_volume(resolution=1.0)
    if name == 'structure0':
        return t.get_structure(0)
    if name == 'len':
        return len(t)
    if name == 'lattice':
        return t.get_lattice()
    if name == 'com':
        return t.center_of_mass()
    if name == 'driftcorr-S':
        return t.apply_drift_correction(fixed_species='S')
    if name == 'transitions':
        sites = concretise.make_sites(SITE_FRAC, ['A', 'B', 'A'], np.asarray(t.get_lattice().matrix))
        return t.transitions_between_sites(sites, 'Li', site_radius=1.5)
    raise ValueError(name)


def own_masses(syms):
    from pymatgen.core import Element

    return np.array([float(Element(s).atomic_mass) for s in syms])


def apply_event(world, refs, ev):
    """Apply one event to the real world and to the reference world (both lists, mutated)."""
    kind, i, arg = ev
    t, r = world[i], refs[i]
    if kind == 'read':
        try:
            apply_read(t, arg)
        except Exception:  # noqa: BLE001  a failing query is not this property's business; its side effects are
            pass
        return
    if kind == 'filter':
        sp = list(arg) if isinstance(arg, tuple) else arg
        new = t.filter(sp)
        mask = [s in (arg if isinstance(arg, tuple) else (arg,)) for s in r.syms]
        nr = Ref(r.pos[:, mask], [s for s, m in zip(r.syms, mask) if m], r.M, r.dt, r.meta, r.nest + 1)
    elif kind == 'slice':
        new = t[slice(*arg)]
        nr = Ref(r.pos[slice(*arg)], r.syms, r.M, r.dt, r.meta, r.nest + 1)
    elif kind == 'index':
        new = t[list(arg)]
        nr = Ref(r.pos[list(arg)], r.syms, r.M, r.dt, r.meta, r.nest + 1)
    elif kind == 'split':
        n, equal, k = arg
        parts = t.split(n, equal_parts=equal)
        new = parts[k]
        unequal = equal and len({len(x) for x in parts}) != 1
        # which frames form part k is C19's business; here: the part must be a contiguous run of source frames
        p = np.array(new.positions)
        start = None
        for s0 in range(len(r.pos)):
            if len(p) and s0 + len(p) <= len(r.pos) and circ_close(p, r.pos[s0:s0 + len(p)]):
                start = s0
                break
        if start is None:
            nr = Ref(np.full_like(p, 0.123), r.syms, r.M, r.dt, r.meta, r.nest + 1)
            nr.bad = 'split part is not a contiguous run of source frames'
        else:
            nr = Ref(r.pos[start:start + len(p)], r.syms, r.M, r.dt, r.meta, r.nest + 1)
        if unequal:
            nr.bad = f'split(equal_parts=True) returned parts of lengths {[len(x) for x in parts]}'
    elif kind == 'extend-foreign':
        # a trajectory recorded with ANOTHER time step (1 fs vs 2 fs) cannot be appended: refusing is fine (no-op); joining
        # it silently, or editing it, is not
        from pymatgen.core import Lattice

        other = type(t)(species=list(t.species), coords=np.mod(np.array(t.positions)[:2] + 0.01, 1.0), lattice=Lattice(r.M), time_step=1e-15, metadata=dict(META), constant_lattice=True)
        n0 = len(t)
        try:
            t.extend(other)
        except ValueError:
            pass
        if len(t) != n0:
            r.bad = ('extend-joins-a-trajectory-with-another-time-step', f'{n0} -> {len(t)} frames, time step of the result {t.time_step!r}, of the appended run 1e-15')
        elif other.time_step != 1e-15:
            r.bad = ('extend-edits-the-trajectory-it-is-given', f'time step of the argument now {other.time_step!r}')
        return
    elif kind == 'extend':
        t.extend(world[arg])
        refs[i] = Ref(np.concatenate([r.pos, refs[arg].pos], axis=0), r.syms, r.M, r.dt, r.meta, r.nest)
        return
    elif kind == 'driftcorr':
        new = t.apply_drift_correction(fixed_species=arg) if arg else t.apply_drift_correction()
        st = r.steps()
        sel = [k for k, s in enumerate(r.syms) if (arg is None or s == arg)]
        corr = st - st[:, sel, :].mean(axis=1, keepdims=True)
        nr = Ref(r.pos[0][None] + np.cumsum(corr, axis=0), r.syms, r.M, r.dt, r.meta, r.nest + 1)
    elif kind == 'com':
        new = t.center_of_mass()
        un = r.pos[0][None] + np.cumsum(r.steps(), axis=0)
        w = own_masses(r.syms)
        nr = Ref(((un * w[None, :, None]).sum(axis=1) / w.sum())[:, None, :], ['X'], r.M, r.dt, r.meta, r.nest + 1)
    elif kind == 'cache':
        fd, path = tempfile.mkstemp(suffix='.cache', dir=os.environ.get('GVMC_TMP', None))
        os.close(fd)
        try:
            t.to_cache(path)
            new = type(t).from_cache(path)
        finally:
            os.unlink(path)
        nr = Ref(r.pos, r.syms, r.M, r.dt, r.meta, r.nest + 1)
    else:
        raise ValueError(kind)
    world.append(new)
    refs.append(nr)


def circ_close(a, b, tol=1e-9):
    a, b = np.asarray(a, dtype=float), np.asarray(b, dtype=float)
    if a.shape != b.shape:
        return False
    d = a - b
    return bool(np.all(np.abs(d - np.round(d)) < tol))


class World:
    def __init__(self, base_spec):
        t, r = make_base(base_spec)
        self.objs = [t]
        self.refs = [r]
        self.error = None


def builder(base_spec):
    def build(hist):
        w = World(base_spec)
        for ev in hist:
            try:
                apply_event(w.objs, w.refs, ev)
            except Exception as e:  # noqa: BLE001
                w.error = (ev, f'{type(e).__name__}: {e}')
                break
        return w

    return build


def obj_bytes(t):
    h = hashlib.sha1()
    h.update(b'D' if t.coords_are_displacement else b'P')
    h.update(np.ascontiguousarray(np.asarray(t.coords, dtype=float)).tobytes())
    bp = t.base_positions
    h.update(b'none' if bp is None else np.ascontiguousarray(np.asarray(bp, dtype=float)).tobytes())
    h.update(np.asarray(t.lattice, dtype=float).tobytes())
    h.update(repr([str(s) for s in t.species]).encode())
    h.update(repr((t.time_step, sorted(getattr(t, 'metadata', {}).items()), t.constant_lattice)).encode())
    return h.digest()


def canon(w):
    return (tuple(obj_bytes(t) for t in w.objs), tuple(r.key() for r in w.refs), repr(w.error))


def make_enabled(tier):
    dops = derive_ops(tier)

    def enabled(w, hist):
        if w.error:
            return []
        evs = []
        # at the last level a derivation adds nothing that the observations (filter / slice of every live
        # object) do not already see, so only state-changing events (reads, extend) are expanded there
        last_level = len(hist) >= DEPTH[tier] - 1
        for i in range(len(w.objs)):
            for name in READ_OPS:
                if name == 'transitions' and ('Li' not in w.refs[i].syms or len(w.refs[i].pos) < 2):
                    continue
                if name == 'driftcorr-S' and 'S' not in w.refs[i].syms:
                    continue
                evs.append(('read', i, name))
        if len(w.objs) < MAX_LIVE and not last_level:
            for i in range(len(w.objs)):
                if w.refs[i].nest >= (1 if tier == 'quick' else 2) or (tier == 'quick' and len(w.objs) >= 2 and i == 0 and len(hist) >= 1 and hist[-1][0] != 'read'):
                    continue
                for kind, arg in dops:
                    if kind in ('slice', 'index') and len(w.refs[i].pos) != 4:
                        # on shorter/longer derived objects: a reduced slice menu, only selections of >= 1 frame
                        if kind == 'index' or arg not in ((None, None, -1), (1, None, None), (None, -1, None), (None, None, 2), (-2, None, None)):
                            continue
                        if len(range(len(w.refs[i].pos))[slice(*arg)]) < 1:
                            continue
                    if kind == 'split' and len(w.refs[i].pos) <= arg[0]:
                        continue
                    if kind == 'filter' and not any(s in (arg if isinstance(arg, tuple) else (arg,)) for s in w.refs[i].syms):
                        continue
                    if kind == 'driftcorr' and arg and arg not in w.refs[i].syms:
                        continue
                    evs.append((kind, i, arg))
        for i in range(len(w.objs)):
            if len(w.refs[i].pos) >= 2 and len(hist) <= 1:
                evs.append(('extend-foreign', i, None))
        for i in range(len(w.objs)):
            for j in range(len(w.objs)):
                if i != j and w.refs[i].syms == w.refs[j].syms and len(w.refs[i].pos) + len(w.refs[j].pos) <= 8:
                    evs.append(('extend', i, j))
        return evs

    return enabled


OBSERVATIONS = ['positions', 'displacements', 'distances', 'meta', 'filter-then-positions', 'slice-then-positions', 'metrics']


def observe(build, hist):
    viols = []
    w = build(hist)
    if w.error:
        ev, msg = w.error
        return [(f'operation-raises-{ev[0]}', f'{ev}: {msg}')]
    n = len(w.objs)
    for i in range(n):
        bad = getattr(w.refs[i], 'bad', None)
        if isinstance(bad, tuple):
            viols.append(bad)
        elif bad:
            viols.append(('split-part-not-contiguous-or-not-equal', bad))
    for q in OBSERVATIONS:
        w = build(hist)  # fresh replica per observation: observing must not disturb what is observed
        for i in range(n):
            t, r = w.objs[i], w.refs[i]
            try:
                if q == 'positions':
                    p = np.array(t.positions)
                    if not (np.all(p >= 0) and np.all(p < 1)):
                        viols.append(('positions-outside-half-open-cell', f'object {i}: {p[(p < 0) | (p >= 1)][:3].tolist()}'))
                    elif not circ_close(p, r.pos):
                        viols.append(('positions-differ-from-reference-selection', f'object {i}: shape {p.shape} vs {r.pos.shape}; got {np.round(p, 6).tolist()} ref {np.round(r.pos, 6).tolist()}'))
                elif q == 'displacements':
                    d = np.array(t.displacements)
                    if d.shape != r.pos.shape or not np.allclose(d, r.steps(), atol=1e-9):
                        viols.append(('displacements-differ-from-reference', f'object {i}: got {np.round(d, 6).tolist()} ref {np.round(r.steps(), 6).tolist()}'))
                elif q == 'distances':
                    dist = np.array(t.distances_from_base_position())
                    own = np.linalg.norm(np.cumsum(r.steps(), axis=0) @ r.M, axis=-1).T
                    if dist.shape != own.shape or not np.allclose(dist, own, atol=1e-9):
                        viols.append(('distances-differ-from-reference', f'object {i}'))
                elif q == 'meta':
                    if len(t) != len(r.pos) or [getattr(s, 'symbol', str(s)) for s in t.species] != r.syms:
                        viols.append(('length-or-species-differ-from-reference', f'object {i}: len {len(t)} species {t.species} vs {len(r.pos)} {r.syms}'))
                    if not np.allclose(np.asarray(t.get_lattice().matrix), r.M, atol=1e-12) or t.time_step != r.dt or dict(t.metadata) != r.meta:
                        viols.append(('lattice-timestep-or-metadata-differ', f'object {i}: dt={t.time_step} meta={t.metadata}'))
                elif q == 'metrics' and r.syms != ['X']:
                    un = np.cumsum(r.steps(), axis=0) @ r.M  # unwrapped Cartesian displacement from frame 0
                    T = len(r.pos)
                    ownD = float(np.mean(np.sum(un[-1] ** 2, axis=-1))) * 1e-20 / (6 * T * r.dt)
                    D = float(t.metrics().tracer_diffusivity(dimensions=3))
                    if abs(D - ownD) > 1e-9 * max(abs(ownD), 1e-20 / (T * r.dt) * 1e-6):
                        viols.append(('tracer-diffusivity-differs-from-reference', f'object {i}: {D} vs {ownD} (frames {T})'))
                    msd = np.asarray(t.mean_squared_displacement())
                    own = np.zeros((un.shape[1], T))
                    for lag in range(T):
                        dd = un[lag:] - un[: T - lag]
                        own[:, lag] = np.mean(np.sum(dd**2, axis=-1), axis=0)
                    if msd.shape != own.shape or not np.allclose(msd, own, rtol=1e-9, atol=1e-9):
                        viols.append(('msd-differs-from-reference', f'object {i}: shape {msd.shape} vs {own.shape}'))
                elif q == 'filter-then-positions' and 'Li' in r.syms:
                    p = np.array(t.filter('Li').positions)
                    mask = [s == 'Li' for s in r.syms]
                    if not circ_close(p, r.pos[:, mask]):
                        viols.append(('filter-returns-wrong-atoms-or-frames', f'object {i}'))
                elif q == 'slice-then-positions' and len(r.pos) >= 2:
                    p = np.array(t[1:].positions)
                    if not circ_close(p, r.pos[1:]):
                        viols.append(('slice-returns-wrong-frames', f'object {i}'))
            except Exception as e:  # noqa: BLE001
                viols.append((f'observation-raises-{q}', f'object {i}: {type(e).__name__}: {e}'))
    # de-duplicate kinds
    out, seen = [], set()
    for k, d in viols:
        if k not in seen:
            seen.add(k)
            out.append((k, d))
    return out


def shards(tier, seed):
    out = []
    nb = len(bases())
    enabled = make_enabled(tier)
    for b in range(nb):
        build = builder(bases()[b][1])
        evs = enabled(build(()), ())
        # one shard per first event (its BFS explores everything below it); plus the read-only fixpoint shard
        out.append({'base': b, 'root': None, 'tier': tier, 'readonly': True})
        for k in range(0, len(evs), 4 if tier == 'quick' else 2):
            out.append({'base': b, 'firsts': list(range(k, min(k + (4 if tier == 'quick' else 2), len(evs)))), 'tier': tier})
    return out


def run_shard(shard) -> Result:
    res = Result()
    tier = shard['tier']
    name, spec = bases()[shard['base']]
    build = builder(spec)
    enabled = make_enabled(tier)

    def on_violation(kind, hist, detail):
        res.violation(kind, {'base': shard['base'], 'history': [list(map(_js, ev)) for ev in hist]}, f'base={name} after {len(hist)} ops: {detail}')

    if shard.get('readonly'):
        def ro_enabled(w, hist):
            return [e for e in enabled(w, hist) if e[0] == 'read']

        st = bfs.explore(build, ro_enabled, canon, observe, max_depth=8, on_violation=on_violation)
        res.stats[f'readonly_fixpoint_reached_base{shard["base"]}'] += int(st.fixpoint)
        res.stats[f'readonly_states_base{shard["base"]}'] += st.states
        res.sample({'base': name, 'readonly_subgraph': {'states': st.states, 'transitions': st.transitions, 'fixpoint': st.fixpoint, 'max_depth': st.max_depth}})
    else:
        evs = enabled(build(()), ())
        tot_s = tot_t = 0
        for k in shard['firsts']:
            st = bfs.explore(build, enabled, canon, observe, max_depth=DEPTH[tier] - 1, root=(evs[k],), on_violation=on_violation)
            tot_s += st.states
            tot_t += st.transitions
            res.stats['max_depth_reached'] = max(res.stats['max_depth_reached'], st.max_depth + 1)
        st = type('S', (), {'states': tot_s, 'transitions': tot_t})()
        res.sample({'base': name, 'first_events': [list(map(_js, evs[k])) for k in shard['firsts']], 'states_below': tot_s})
    res.states += st.states
    res.transitions += st.transitions
    res.traces += st.states
    res.evals += st.states * len(OBSERVATIONS)
    res.outcome((shard['base'], st.states, st.transitions))
    return res


def _js(x):
    if isinstance(x, tuple):
        return [_js(v) for v in x]
    return x


def _unjs(ev):
    kind, i, arg = ev
    if isinstance(arg, list):
        arg = tuple(tuple(a) if isinstance(a, list) else a for a in arg)
    return (kind, i, arg)


def replay(case):
    name, spec = bases()[case['base']]
    hist = tuple(_unjs(ev) for ev in case['history'])
    return [{'kind': k, 'detail': d} for k, d in observe(builder(spec), hist)]
