"""C20 — memoised analysis results are transparent and never leak between objects.

Engine E2: explicit-state BFS over object life-cycle histories {new, call(method, args), drop,
gc.collect, flood} on (a) a probe class using the REAL `weak_lru_cache` decorator with maxsize=2 (so
eviction is reachable within the bound) and (b) the real Transitions / Jumps / TrajectoryMetrics /
Collective classes. Every history is replayed on fresh objects after clearing the caches through the
closure handle. Oracle: every cached call deep-equals `method.__wrapped__` on the same object; a
dropped object is dead after gc; address reuse between dropped and new objects is recorded.
"""

from __future__ import annotations

import gc
import itertools
import weakref
from collections import Counter

import numpy as np

from .. import bfs, concretise, impl
from ..core import HarnessError, Result
from ..ref import hop

ID = 'C20'
LEVEL = 'model_checking'
ENGINE = 'E2-bfs'
RULE = (
    'BFS over histories of {new(slot,variant), call(slot,method,args; positional and keyword spellings), drop(slot), '
    'copy(slot 0 -> slot 1 with the other variant\'s data), gc, flood(130 objects)}; probe class with weak_lru_cache(maxsize=2): 2 slots depth 6 and 3 slots depth 5 (quick: '
    '6/4); real classes Transitions, Jumps, TrajectoryMetrics (and the Collective returned by Jumps.collective), call menu = '
    'listed methods + every further method found memoised on the tree under test: 2 slots depth 4 (thorough 5 for Transitions and metrics, 4 for Jumps with the full menu; the split-based statistics of Jumps only in the thorough tier); Jumps objects of a variant share one Transitions and differ in minimal_residence; metrics objects also through Trajectory.metrics(); state = (slot contents and origin new/copy, calls made, cache_info of every cache)'
    '; menus include calls with the same value under different keyword names and calls that raise; memoised methods are recognised by the wrapper defined in gemdat/caching.py (functools.lru_cache statistics are part of the state only when present)'
)
LEVEL_TEXT = (
    'Explicit-state model checking of the memoisation layer: every interleaving of creating, querying with '
    'varying arguments, dropping and collecting objects up to the depth bound, including eviction (probe class, '
    'maxsize 2; flood of 130 objects for the real maxsize 128) and address reuse; each cached result is compared '
    'with an uncached recomputation on the same object, and every dropped object must be collectable.'
)
LEVEL_NOTE = 'Trusted: CPython reference counting/gc semantics; deep equality helper. The probe class uses the repository\'s decorator unchanged. Address reuse is observed, not forced: the evidence states how many reuse events occurred.'
TECHNIQUE = 'explicit-state BFS over object life-cycle histories on real objects and the real decorator'
ASSUMPTIONS = ['single-threaded use (GEMDAT starts no threads)']

DEPTHS = {'quick': {'probe2': 5, 'probe3': 4, 'real': 4}, 'thorough': {'probe2': 6, 'probe3': 5, 'real': 5, 'realJ': 4}}  # Jumps: 12 calls of 5-20 ms each, depth 5 does not finish within the cap
CAPS = {'thorough': 2400}


# ------------------------------------------------------------------ probe class (real decorator, small maxsize)
_PROBE = {}


def probe_class():
    if 'cls' not in _PROBE:
        from gemdat.caching import weak_lru_cache

        class Probe:
            serial = itertools.count()

            def __init__(self, data):
                self.data = data
                self.no = next(Probe.serial)

            @weak_lru_cache(maxsize=2)
            def f(self, x=0):
                return ('f', self.data, self.no, x)

            @weak_lru_cache(maxsize=2)
            def g(self, x, k=1, m=1):
                if x == 9:
                    raise ValueError('probe: no result for this argument')
                return ('g', self.data, self.no, x, k, m)

        _PROBE['cls'] = Probe
    return _PROBE['cls']


PROBE_CALLS = [('f', (), {}), ('f', (1,), {}), ('f', (), {'x': 1}), ('g', (0,), {}), ('g', (0, 2), {}), ('g', (0,), {'k': 2}), ('g', (5,), {}), ('g', (0,), {'m': 2}), ('g', (9,), {})]  # g(0, k=2) / g(0, m=2): the same value under different names; g(9) raises


# ------------------------------------------------------------------ real classes
TRACES = [  # contain a short visit to the outer shell of a site, so minimal_residence 0 and 3 give different jumps
    [[1, 3], [0, 3], [4, 1], [0, 0], [5, 1], [5, 3]],
    [[3, 0], [0, 1], [2, 1], [0, 0], [5, 3], [5, 3]],
]
_PRE = {}


def prebuilt(variant):
    """Heavy inputs shared between replays (objects themselves are always fresh)."""
    if variant not in _PRE:
        M = np.eye(3) * (6.0 + variant)
        traj = concretise.vib_traj(2, 6, M, 1e-15 * (1 + variant))
        from ..checks.c12 import SITE_FRAC

        sites = concretise.make_sites(np.array(SITE_FRAC[:3]), ['A', 'B', 'A'], M)
        tr = impl.make_transitions(TRACES[variant], 3, trajectory=traj, diff_trajectory=traj, sites=sites)
        from gemdat.jumps import Jumps

        jd = Jumps(tr).data
        _PRE[variant] = (traj, sites, tr.events, np.asarray(tr.states), np.asarray(tr.inner_states), jd)
    return _PRE[variant]


def new_real(cls, variant, slot=0, shared=None):
    from gemdat.jumps import Jumps
    from gemdat.metrics import TrajectoryMetrics
    from gemdat.transitions import Transitions

    traj, sites, events, states, inner, jd = prebuilt(variant)
    if cls == 'M':
        if slot == 1 and shared is not None:
            # obtained through the accessor of a trajectory that stays alive in the world
            if ('traj', variant) not in shared:
                shared['traj', variant] = concretise.make_trajectory(np.array(traj.positions), ['Li'] * 2, np.asarray(traj.get_lattice().matrix), time_step=traj.time_step, temperature=400.0)
            return shared['traj', variant].metrics()
        return TrajectoryMetrics(traj)
    if cls == 'T':
        return Transitions(trajectory=traj, diff_trajectory=traj, sites=sites, events=events, states=states, inner_states=inner)
    # Jumps: all objects of one variant are built over ONE shared Transitions (per replay) with the real
    # conversion method; the slot decides minimal_residence (0 or 3), so two live, different Jumps can be
    # "equal in everything but one argument"
    if shared is None:
        shared = {}
    if variant not in shared:
        shared[variant] = Transitions(trajectory=traj, diff_trajectory=traj, sites=sites, events=events, states=states, inner_states=inner)
    shared[variant]._gvmc_variant = variant
    return Jumps(shared[variant], conversion_method=fast_conversion, minimal_residence=0 if slot == 0 else 3)


_JT = {}


def fast_conversion(transitions, *, minimal_residence=0):
    """ONE module-level conversion function (so objects do not differ by it): the real classifier's result,
    computed once per (variant, minimal_residence) and copied afterwards."""
    from gemdat.jumps import _generic_transitions_to_jumps

    key = (transitions._gvmc_variant, minimal_residence)
    if key not in _JT:
        _JT[key] = _generic_transitions_to_jumps(transitions, minimal_residence=minimal_residence)
    return _JT[key].copy()


REAL_CALLS = {
    'T': [('matrix', (), {}), ('states_next', (), {}), ('states_prev', (), {})],
    'J': [('matrix', (), {}), ('counter', (), {}), ('jump_diffusivity', (3,), {}), ('jump_diffusivity', (), {'dimensions': 1}), ('jump_diffusivity', (0,), {}), ('collective', (), {}), ('collective', (3.5,), {}), ('to_graph', (), {}), ('to_graph', (), {'max_e_act': 'MID'}), ('to_graph', (), {'min_e_act': 'MID'}), ('split', (2,), {}), ('split', (3,), {})],
    'M': [('tracer_diffusivity', (), {'dimensions': 3}), ('tracer_diffusivity', (), {'dimensions': 1}), ('particle_density', (), {}), ('attempt_frequency', (), {}), ('tracer_conductivity', (), {'z_ion': 2, 'dimensions': 3}), ('tracer_conductivity', (), {'dimensions': 2, 'z_ion': 3}), ('haven_ratio', (), {})],
}


def discovered_calls(cls_key):
    """Call menu of a real class = the fixed list above + every OTHER method of the class that is memoised with
    weak_lru_cache on the tree under test (so caching added to a further method is explored as well). Argument
    variants are derived from the signature: n_parts -> 1 and 2, dimensions -> 3, otherwise defaults only."""
    import inspect

    import gemdat.jumps
    import gemdat.metrics
    import gemdat.transitions

    cls = {'T': gemdat.transitions.Transitions, 'J': gemdat.jumps.Jumps, 'M': gemdat.metrics.TrajectoryMetrics}[cls_key]
    calls = list(REAL_CALLS[cls_key])
    if cls_key == 'J' and _TIER.get('tier') == 'quick':
        calls = [c for c in calls if not (c[0] == 'split' and c[1] == (2,)) and not (c[0] == 'to_graph' and 'min_e_act' in c[2])]
    listed = {c[0] for c in calls}
    for name, attr in sorted(vars(cls).items()):
        if name in listed or not impl.is_memoised(attr):
            continue
        try:
            params = list(inspect.signature(attr).parameters.values())[1:]
        except (TypeError, ValueError):
            continue
        if any(p.default is inspect.Parameter.empty and p.kind in (p.POSITIONAL_ONLY, p.POSITIONAL_OR_KEYWORD, p.KEYWORD_ONLY) and p.name not in ('n_parts', 'dimensions', 'z_ion') for p in params):
            continue
        names = [p.name for p in params]
        if 'n_parts' in names:
            if cls_key == 'J' and _TIER.get('tier') == 'quick':
                continue  # split-based statistics of Jumps cost ~20 ms per call: thorough tier only
            calls += [(name, (), {'n_parts': 1}), (name, (), {'n_parts': 2})]
        elif 'dimensions' in names:
            kw = {'dimensions': 3}
            if 'z_ion' in names:
                kw['z_ion'] = 1
            calls.append((name, (), kw))
        else:
            calls.append((name, (), {}))
    return calls


_CALLS = {}
_TIER = {}


def calls_of(kind, cls):
    if kind == 'probe':
        return PROBE_CALLS
    if cls not in _CALLS:
        _CALLS[cls] = discovered_calls(cls)
    return _CALLS[cls]


def deep_equal(a, b):
    import networkx as nx
    import pandas as pd

    if isinstance(a, np.ndarray) or isinstance(b, np.ndarray):
        return isinstance(a, np.ndarray) and isinstance(b, np.ndarray) and a.shape == b.shape and np.array_equal(a, b, equal_nan=True)
    if isinstance(a, pd.DataFrame):
        return isinstance(b, pd.DataFrame) and a.shape == b.shape and list(a.columns) == list(b.columns) and np.array_equal(a.to_numpy(dtype=float), b.to_numpy(dtype=float), equal_nan=True)
    if isinstance(a, nx.Graph):
        return isinstance(b, nx.Graph) and dict(a.nodes(data=True)) == dict(b.nodes(data=True)) and sorted(a.edges(data='e_act')) == sorted(b.edges(data='e_act'))
    if type(a).__name__ == 'Collective':
        return type(b).__name__ == 'Collective' and a.n_solo_jumps == b.n_solo_jumps and a.coll_jumps == b.coll_jumps and a.max_dist == b.max_dist and a.max_steps == b.max_steps
    if isinstance(a, (tuple, list)):
        return type(a) is type(b) and len(a) == len(b) and all(deep_equal(x, y) for x, y in zip(a, b))
    if isinstance(a, float) and isinstance(b, float):
        return a == b or (a != a and b != b)
    return a == b


def all_caches(kind):
    """lru_cache objects behind every weak_lru_cache method of the classes in play."""
    out = []
    if kind == 'probe':
        classes = [probe_class()]
    else:
        import gemdat.collective
        import gemdat.jumps
        import gemdat.metrics
        import gemdat.transitions

        classes = [gemdat.transitions.Transitions, gemdat.jumps.Jumps, gemdat.metrics.TrajectoryMetrics, gemdat.collective.Collective]
    for cls in classes:
        for name, attr in sorted(vars(cls).items()):
            lru = impl.lru_of(attr)
            if lru is not None or impl.is_memoised(attr):
                # lru is None when the decorator of the tree under test is not built on functools.lru_cache: the methods
                # are still explored, only the cache statistics are then not part of the canonical state
                out.append((cls.__name__ + '.' + name, lru))
    return out


class World:
    def __init__(self, kind, nslots):
        self.kind = kind
        self.slots = [None] * nslots
        self.variant = [None] * nslots
        self.called = set()
        self.errors = []
        self.dropped_ids = set()
        self.id_reuse = 0
        self.dead_checks = 0
        self.shared = {}
        self.origin = [None] * nslots  # how the object in each slot came to be ('new' / 'copy'): part of the state


def make_build(kind, nslots, cls=None):
    caches = all_caches(kind)
    if not caches:
        raise HarnessError('no memoised methods found (seam lost)')

    if not _PROBE.get('frozen'):
        # move everything allocated so far (pymatgen, pandas, ...) to the permanent generation: a full
        # gc.collect() then only scans the objects created by the replays (40 ms -> microseconds)
        for v in (0, 1):
            prebuilt(v)
        gc.collect()
        gc.freeze()
        _PROBE['frozen'] = True

    def build(hist):
        for _, lru in caches:
            if lru is not None:
                lru.cache_clear()
        gc.collect()
        w = World(kind, nslots)
        for ei, ev in enumerate(hist):
            w.ei = ei
            op = ev[0]
            if op == 'new':
                _, s, v = ev
                obj = probe_class()(('data', v)) if kind == 'probe' else new_real(cls, v, s, w.shared)
                if id(obj) in w.dropped_ids:
                    w.id_reuse += 1
                w.slots[s], w.variant[s] = obj, v
                w.origin[s] = 'new'
            elif op == 'call':
                _, s, ci = ev
                name, args, kwargs = calls_of(kind, cls)[ci]
                obj = w.slots[s]
                meth = getattr(type(obj), name)
                if not hasattr(meth, '__wrapped__'):
                    # a method that is not memoised on this tree: it must still be repeatable on one object and agree with
                    # the same call on a fresh object of the same data (hidden per-instance memos show up here)
                    def outcome(o):
                        try:
                            r = getattr(type(o), name)(o, *args, **kwargs)
                            return ('ok', [int(p.n_jumps) for p in r] if isinstance(r, list) else str(r)[:80])
                        except Exception as e:  # noqa: BLE001
                            return ('raise', type(e).__name__)

                    r1, r2 = outcome(obj), outcome(obj)
                    r3 = outcome(new_real(cls, w.variant[s], s, w.shared))
                    if not (r1 == r2 == r3):
                        w.errors.append(('uncached-method-not-repeatable', f'{type(obj).__name__}.{name}{args}: first {r1}, again {r2}, fresh object {r3}', ei))
                    w.called.add((s, ci))
                    continue
                if 'MID' in kwargs.values():
                    # a threshold that really rejects some edge: the middle of the activation energies
                    acts = sorted(d['e_act'] for _, _, d in meth.__wrapped__(obj).edges(data=True))
                    mid = (acts[0] + acts[-1]) / 2 if acts else 0.0
                    kwargs = {k: (mid if v == 'MID' else v) for k, v in kwargs.items()}
                try:
                    got = meth(obj, *args, **kwargs)
                    again = meth(obj, *args, **kwargs)
                    fresh = meth.__wrapped__(obj, *args, **kwargs)
                except Exception as e:  # noqa: BLE001
                    try:
                        meth.__wrapped__(obj, *args, **kwargs)
                        w.errors.append((f'cached-call-raises-{type(e).__name__}', f'{name}{args}{kwargs}: {e} (the uncached call does not raise)', ei))
                    except Exception as e2:  # noqa: BLE001  both raise: transparent
                        if type(e2) is not type(e):
                            w.errors.append(('cached-call-raises-differently', f'{name}{args}{kwargs}: {type(e).__name__} vs {type(e2).__name__}', ei))
                    w.called.add((s, ci))
                    continue
                if name == 'collective' and kind != 'probe':
                    # independent oracle for the correlation window (a value shared between objects inside the method
                    # body is invisible to the cached-vs-uncached comparison)
                    import math

                    from gemdat.metrics import TrajectoryMetrics

                    tj = obj.trajectory
                    nu = float(TrajectoryMetrics(tj).attempt_frequency()[0])
                    w_exp = math.ceil(1.0 / (nu * tj.time_step))
                    if got.max_steps != w_exp:
                        w.errors.append(('collective-window-not-from-this-objects-trajectory', f'variant {w.variant[s]}: max_steps={got.max_steps} expected {w_exp}', ei))
                if not deep_equal(got, fresh) or not deep_equal(again, fresh):
                    w.errors.append(('cached-result-differs-from-uncached', f'{type(obj).__name__}.{name}{args}{kwargs} variant {w.variant[s]}: cached={str(got)[:120]} uncached={str(fresh)[:120]}', ei))
                w.called.add((s, ci))
                del got, again, fresh
            elif op == 'drop':
                _, s = ev
                obj = w.slots[s]
                wr = weakref.ref(obj)
                extra = []
                if kind != 'probe' and hasattr(obj, 'transitions'):
                    extra.append(weakref.ref(obj.transitions))
                w.dropped_ids.add(id(obj))
                had_calls = sorted(c for (ss, c) in w.called if ss == s)
                w.slots[s] = None
                w.variant[s] = None
                w.origin[s] = None
                w.called = {(ss, c) for (ss, c) in w.called if ss != s}
                del obj
                gc.collect()
                w.dead_checks += 1
                if wr() is not None:
                    names = [calls_of(kind, cls)[c][0] for c in had_calls]
                    which = 'collective' if 'collective' in names else 'other'
                    w.errors.append((f'cache-keeps-dropped-object-alive-{which}', f'{type(wr()).__name__} still alive after drop+gc; cached calls made on it: {names}', ei))
            elif op == 'copy':
                # slot 1 becomes a shallow copy of the object in slot 0, given the OTHER variant's data
                import copy as _copy

                src = w.slots[0]
                v_other = 1 - w.variant[0]
                obj = _copy.copy(src)
                if kind == 'probe':
                    obj.data = ('data', v_other)
                    obj.no = next(type(obj).serial)
                elif cls == 'M':
                    obj.trajectory = prebuilt(v_other)[0]
                elif cls == 'T':
                    o2 = new_real('T', v_other)
                    obj.__dict__.update(o2.__dict__)
                else:
                    o2 = new_real('J', v_other, 1, w.shared)
                    obj.__dict__.update({k: v for k, v in o2.__dict__.items()})
                w.slots[1], w.variant[1] = obj, v_other
                w.origin[1] = 'copy'
                src = obj = o2 = None  # the replay loop itself must not keep anything alive
                w.called = {(ss, c) for (ss, c) in w.called if ss != 1}
            elif op == 'gc':
                gc.collect()
            elif op == 'flood':
                objs = []
                for k in range(130):
                    o = probe_class()(('flood', k)) if kind == 'probe' else new_real(cls, k % 2, k % 2, {})
                    name, args, kwargs = calls_of(kind, cls)[0]
                    getattr(type(o), name)(o, *args, **kwargs)
                    objs.append(weakref.ref(o))
                    if k % 3:
                        del o
                del o
                gc.collect()
                if any(r() is not None for r in objs):
                    w.errors.append(('cache-keeps-dropped-object-alive-flood', f'{sum(r() is not None for r in objs)} of 130 flood objects alive', ei))
        return w

    def canon(w):
        # objects made by copying are NOT merged with freshly constructed ones: a copy carries whatever per-instance
        # state the memoisation layer may have attached to the original
        return (tuple(w.variant), tuple(w.origin), frozenset(w.called), tuple((n, tuple(l.cache_info()) if l is not None else None) for n, l in caches), tuple(e[0] for e in w.errors))

    return build, canon


def make_enabled(kind, nslots, cls, with_flood):
    ncalls = len(calls_of(kind, cls))

    def enabled(w, hist):
        evs = []
        for s in range(nslots):
            if w.slots[s] is None:
                # symmetry: fill the lowest empty slot only
                if all(w.slots[q] is not None for q in range(s)):
                    evs += [('new', s, 0), ('new', s, 1)]
            else:
                evs += [('call', s, c) for c in range(ncalls)]
                evs.append(('drop', s))
        if w.slots[0] is not None and nslots >= 2 and w.slots[1] is None and any(ss == 0 for ss, _ in w.called):
            evs.append(('copy',))
        evs.append(('gc',))
        if with_flood and len(hist) <= 2 and not any(e[0] == 'flood' for e in hist):
            evs.append(('flood',))
        return evs

    return enabled


def run_scripted(res):
    """Scripted histories with the plotting helpers of Jumps between cached calls: a helper that receives a cached
    value must not change what the cached methods return afterwards (compared with an uncached recomputation)."""
    import contextlib
    import io

    for variant in (0, 1):
        for l in [lru for _, lru in all_caches('real') if lru is not None]:
            l.cache_clear()
        j = new_real('J', variant, 0, {})
        plots = [n for n in dir(type(j)) if n.startswith('plot_')]
        script = ['matrix', 'counter'] + plots + ['matrix', 'counter', 'jump_diffusivity', 'to_graph']
        for name in script:
            meth = getattr(type(j), name)
            res.evals += 1
            res.transitions += 1
            try:
                if name.startswith('plot_'):
                    with contextlib.redirect_stdout(io.StringIO()):
                        try:
                            meth(j)
                        except Exception:  # noqa: BLE001  (a plot that cannot be drawn here is not this property's business)
                            res.stats['plot_helpers_failed'] += 1
                    continue
                args = (3,) if name == 'jump_diffusivity' else ()
                got = meth(j, *args)
                fresh = meth.__wrapped__(j, *args)
                if not deep_equal(got, fresh):
                    res.violation('cached-result-differs-from-uncached', {'kind': 'scripted', 'variant': variant, 'script': script}, f'Jumps.{name} after {script[: script.index(name) + 1]}: cached={str(got)[:100]} uncached={str(fresh)[:100]}')
                    break
            except Exception as e:  # noqa: BLE001
                res.violation(f'scripted-raise-{type(e).__name__}', {'kind': 'scripted', 'variant': variant, 'script': script}, f'{name}: {e}')
                break
        res.states += len(script)
        res.outcome(('scripted', variant, len(plots)))
    res.sample({'scripted_history_with_plot_helpers': script})


def shards(tier, seed):
    out = [{'kind': 'scripted'}]
    _TIER['tier'] = tier
    _CALLS.clear()
    d = DEPTHS[tier]
    for first in (('new', 0, 0), ('new', 0, 1)):
        out.append({'kind': 'probe', 'nslots': 2, 'depth': d['probe2'], 'root': list(first)})
        out.append({'kind': 'probe', 'nslots': 3, 'depth': d['probe3'], 'root': list(first)})
    for cls in ('T', 'J', 'M'):
        for first in (('new', 0, 0), ('new', 0, 1)):
            for second in range(len(calls_of('real', cls)) + 1):
                for third in range(3 if cls == 'J' else 1):
                    out.append({'kind': 'real', 'cls': cls, 'nslots': 2, 'depth': d.get('real' + cls, d['real']), 'root': list(first), 'second': second, 'third': third, 'nthird': 3 if cls == 'J' else 1, 'tier': tier})
    return out


def run_shard(shard) -> Result:
    res = Result()
    kind = shard['kind']
    if kind == 'scripted':
        run_scripted(res)
        return res
    cls = shard.get('cls')
    if _TIER.get('tier') != shard.get('tier', _TIER.get('tier')):
        _TIER['tier'] = shard.get('tier')
        _CALLS.clear()
    build, canon = make_build(kind, shard['nslots'], cls)
    enabled = make_enabled(kind, shard['nslots'], cls, with_flood=True)
    root = (tuple(shard['root']),)
    depth = shard['depth'] - 1
    if kind == 'real':
        ncalls = len(calls_of('real', cls))
        if shard['second'] < ncalls:
            root = root + (('call', 0, shard['second']),)
            depth -= 1
        else:
            # everything whose second event is not a call on slot 0
            base_enabled = enabled

            def enabled(w, hist, _b=base_enabled):  # noqa: E731
                evs = _b(w, hist)
                if len(hist) == 1:
                    evs = [e for e in evs if not (e[0] == 'call' and e[1] == 0)]
                return evs

    if shard.get('nthird', 1) > 1:
        # split the work below the second event three ways (event index modulo 3 at that level)
        prev_enabled, lvl, k3, n3 = enabled, len(root), shard['third'], shard['nthird']

        def enabled(w, hist, _b=prev_enabled):  # noqa: E731
            evs = _b(w, hist)
            if len(hist) == lvl:
                evs = [e for i, e in enumerate(evs) if i % n3 == k3]
            return evs

    reuse = [0]
    dead = [0]

    def on_violation(k, hist, detail):
        res.violation(k, {'kind': kind, 'cls': cls, 'nslots': shard['nslots'], 'history': [list(e) for e in hist]}, detail)

    def check_world(w, hist):
        if hist and hist[-1][0] == 'new' and w.id_reuse:
            reuse[0] += 1
        if hist and hist[-1][0] == 'drop':
            dead[0] += 1
        return [(k, d) for k, d, ei in w.errors if ei == len(hist) - 1]

    st = bfs.explore(build, enabled, canon, None, max_depth=depth, root=root, on_violation=on_violation, check_world=check_world)
    res.states += st.states
    res.transitions += st.transitions
    res.traces += st.states
    res.evals += st.transitions
    res.stats['states_with_address_reuse'] += reuse[0]
    res.stats['drop_states_checked_dead'] += dead[0]
    res.stats[f'states_{kind}{cls or ""}'] += st.states
    res.outcome((kind, cls, shard['nslots'], tuple(shard['root']), shard.get('second'), st.states))
    res.sample({'kind': kind, 'class': cls, 'slots': shard['nslots'], 'depth': shard['depth'], 'root': shard['root'], 'states': st.states, 'transitions': st.transitions, 'example_history': [list(e) for e in (st.first_violation_hist or root)]})
    return res


def finalize(total, tier):
    if total.stats['states_with_address_reuse'] == 0:
        raise HarnessError('no address-reuse event was exercised: the same-address clause would be vacuous')


def replay(case):
    if case.get('kind') == 'scripted':
        r = Result()
        run_scripted(r)
        return [{'kind': v['kind'], 'detail': v['detail']} for v in r.viols]
    build, _ = make_build(case['kind'], case['nslots'], case.get('cls'))
    w = build(tuple(tuple(e) for e in case['history']))
    return [{'kind': k, 'detail': d} for k, d, _ in w.errors]
