"""C14 — derived metrics obey their formulas and physical scaling laws.

Engine E1 (input-shape mode): a table of vibrating/drifting multi-species tracks x frame counts x
lattices x cell scale k x time scale s x ion charge x dimensions x temperature x number of parts; each
real TrajectoryMetrics / TrajectoryMetricsStd value is compared with its formula (CODATA constants
typed literally) and with the scaling laws of the statement.
"""

from __future__ import annotations

import itertools
import math

import numpy as np

from .. import alphabets, concretise
from ..core import Result

ID = 'C14'
LEVEL = 'exploration'
RULE = (
    'tracks: 12 generators (vibration + drift, 3 atoms Li/Li/S, steps < 1/2 cell) and 4 "all atoms move '
    'identically" tracks x frames {8,9,16} x LATTICES (incl. a left-handed cell) x k in {0.5,2,3.7,1e-4,1e3} x s in {0.5,2,10} x z in {1,2,-1,3} x '
    'dimensions {1,2,3} x T in {100,300,1000} x parts {1,2,3} and {T-3,T-1} (single-frame parts); evaluation = one metric value compared; distinct = '
    'distinct (track, lattice, metric values) tuples'
    '; mean/std conductivity over a list of two runs with different cell and temperature, both orders'
)
LEVEL_TEXT = (
    'Complete product of the listed alphabets; every metric (density, molarity, tracer and centre-of-mass '
    'diffusivity, Nernst-Einstein conductivity, Haven ratio, mean/std over sub-trajectories) is compared with '
    'its defining formula on independently unwrapped coordinates, and the k / s scaling laws, the amplitude sum '
    'rule and Haven ratio 1 for identical motion are checked metamorphically.'
)
LEVEL_NOTE = 'Trusted: CODATA 2018 constants typed literally; atomic masses read from pymatgen\'s element table (data, not logic); population standard deviation (ddof=0) as implemented is the reference for the std variants.'
TECHNIQUE = 'bounded-exhaustive configuration enumeration with formula and metamorphic (scaling-law) oracles'
ASSUMPTIONS = ['steps below half a cell', 'atoms vibrate (a static atom has zero spectral power: attempt frequency undefined)']

ANG = 1e-10
E_CH = 1.602176634e-19
KB = 1.380649e-23
NA = 6.02214076e23
SYMS = ['Li', 'Li', 'S']
SV = [-0.3, -0.12, 0.0, 0.07, 0.21, 0.33]


def track(j, T, identical=False):
    """steps (T-1, 3 atoms, 3)."""
    st = np.zeros((T - 1, 3, 3))
    for t in range(T - 1):
        for a in range(3):
            b = 0 if identical else a
            st[t, a] = [SV[(t * (j + 1) + 2 * b + j) % 6], SV[(t * 2 + j + b * b) % 6] * 0.6, SV[(t + 3 * j + 5 * b) % 6] * 0.4]
    return st


def shards(tier, seed):
    out = []
    lats = alphabets.lattices(tier, seed)
    if tier == 'quick':
        lats = [l for l in lats if l[0] in ('cubic6', 'ortho567-axes-permuted', 'tric-pmg-default', 'hex-a5-c7', 'tric-vesta-left-handed')]
    for lname, M in lats:
        for j in range(12 if tier == 'thorough' else 6):
            out.append({'lat': lname, 'M': M.tolist(), 'j': j, 'identical': False})
        for j in range(4 if tier == 'thorough' else 2):
            out.append({'lat': lname, 'M': M.tolist(), 'j': j, 'identical': True})
    return out


def close(a, b, rtol=1e-9, atol=0.0):
    a, b = float(a), float(b)
    return abs(a - b) <= atol + rtol * max(abs(a), abs(b))


def masses():
    from pymatgen.core import Element

    return np.array([float(Element(s).atomic_mass) for s in SYMS])


def make(st, M, dt, temperature):
    x0 = np.array([[0.05, 0.5, 0.95], [0.4, 0.01, 0.3], [0.7, 0.6, 0.99]])
    un = np.concatenate([x0[None], x0[None] + np.cumsum(st, axis=0)], axis=0)
    w = np.mod(un, 1)
    w[w == 1] = 0
    return un, concretise.make_trajectory(w, SYMS, M, time_step=dt, temperature=temperature)


def own_D(un, M, dim, dt):
    T = len(un)
    d = (un[-1] - un[0]) @ M
    return float(np.mean(np.sum(d * d, axis=-1))) * ANG**2 / (2 * dim * T * dt)


def evaluate(j, identical, T, M, res: Result, case):
    from gemdat.metrics import TrajectoryMetrics, TrajectoryMetricsStd

    M = np.asarray(M)
    st = track(j, T, identical)
    dt = 2e-15

    def V(kind, detail):
        res.violation(kind, case, detail)

    def ev(n=1):
        res.evals += n

    un, traj = make(st, M, dt, 300.0)
    m = TrajectoryMetrics(traj)
    vol = abs(np.linalg.det(M))
    # --- formulas
    try:
        rho = float(m.particle_density())
        ev()
        if not close(rho, 3 / (vol * ANG**3)):
            V('particle-density-wrong', f'{rho} vs {3 / (vol * ANG ** 3)}')
        mol = float(m.mol_per_liter())
        ev()
        if not close(mol, 3 / (vol * ANG**3) * 1e-3 / NA):
            V('molarity-wrong', f'{mol}')
        mw = masses()
        com = (un * mw[None, :, None]).sum(axis=1) / mw.sum()
        for dim in (1, 2, 3):
            D = float(m.tracer_diffusivity(dimensions=dim))
            ev()
            oD = own_D(un, M, dim, dt)
            if not close(D, oD):
                V('tracer-diffusivity-wrong', f'dim={dim} {D} vs {oD}')
            Dc = float(m.tracer_diffusivity_center_of_mass(dimensions=dim))
            ev()
            oDc = own_D(com[:, None, :], M, dim, dt)
            if not close(Dc, oDc, 1e-8):
                V('centre-of-mass-diffusivity-wrong', f'dim={dim} {Dc} vs {oDc} (mass-weighted mean of unwrapped positions)')
            H = float(m.haven_ratio(dimensions=dim))
            ev()
            if not close(H, oD / oDc, 1e-8):
                V('haven-ratio-wrong', f'{H} vs {oD / oDc}')
            if identical and not close(H, 1.0, 1e-8):
                V('haven-ratio-not-one-for-identical-motion', f'{H}')
            for temperature in (100.0, 300.0, 1000.0):
                _, tt = make(st, M, dt, temperature)
                mt = TrajectoryMetrics(tt)
                for z in (1, 2, -1, 3):
                    sig = float(mt.tracer_conductivity(z_ion=z, dimensions=dim))
                    ev()
                    own = E_CH**2 * z**2 * oD * (3 / (vol * ANG**3)) / (KB * temperature)
                    if not close(sig, own):
                        V('tracer-conductivity-not-nernst-einstein', f'z={z} T={temperature} dim={dim}: {sig} vs {own}')
        amps = np.asarray(m.amplitudes())
        dist = np.asarray(traj.distances_from_base_position())
        ev()
        if not close(amps.sum(), dist[:, -1].sum(), 1e-9, 1e-12):
            V('amplitudes-do-not-sum-to-final-distance', f'{amps.sum()} vs {dist[:, -1].sum()}')
        one = traj.filter('S')
        a1 = np.asarray(TrajectoryMetrics(one).amplitudes())
        ev()
        if not close(a1.sum(), np.asarray(one.distances_from_base_position())[0, -1], 1e-9, 1e-12):
            V('amplitudes-of-one-atom-do-not-sum-to-its-final-distance', f'{a1.sum()}')
        nu = float(m.attempt_frequency()[0])
        va = float(m.vibration_amplitude())
        key = [round(math.log10(abs(D) + 1e-300), 9), round(nu / 1e12, 9), round(va, 9)]
    except Exception as e:  # noqa: BLE001
        V(f'metrics-raise-{type(e).__name__}', str(e))
        return ('raise',)
    # --- scaling laws
    try:
        D3 = float(m.tracer_diffusivity(dimensions=3))
        for k in (0.5, 2.0, 3.7, 1e-4, 1e3):
            _, tk = make(st, M * k, dt, 300.0)
            mk = TrajectoryMetrics(tk)
            ev(4)
            if not close(float(mk.tracer_diffusivity(dimensions=3)), D3 * k * k):
                V('diffusivity-does-not-scale-with-k-squared', f'k={k}')
            if not close(float(mk.vibration_amplitude()), va * k, 1e-8, 1e-10 * k):  # an amplitude spread of exactly 0 stays 0 up to rounding
                V('vibration-amplitude-does-not-scale-with-k', f'k={k}: {float(mk.vibration_amplitude())} vs {va * k}')
            if not close(float(mk.particle_density()), rho / k**3):
                V('particle-density-does-not-scale-with-k^-3', f'k={k}')
            if not close(float(mk.attempt_frequency()[0]), nu, 1e-8):
                V('attempt-frequency-changes-with-cell-scale', f'k={k}: {float(mk.attempt_frequency()[0])} vs {nu}')
        for s in (0.5, 2.0, 10.0):
            _, ts = make(st, M, dt * s, 300.0)
            ms = TrajectoryMetrics(ts)
            ev(2)
            if not close(float(ms.tracer_diffusivity(dimensions=3)), D3 / s):
                V('diffusivity-does-not-scale-with-inverse-time-step', f's={s}')
            if not close(float(ms.attempt_frequency()[0]), nu / s, 1e-8):
                V('attempt-frequency-does-not-scale-with-inverse-time-step', f's={s}')
    except Exception as e:  # noqa: BLE001
        V(f'scaling-raise-{type(e).__name__}', str(e))
    # --- parts of a single frame still count (their diffusivity is 0)
    try:
        for n in (T - 3, T - 1):
            parts = traj.split(n)
            if not any(len(p) == 1 for p in parts):
                continue
            own = []
            for p in parts:
                pos = np.array(p.positions)
                stp = np.diff(pos, axis=0)
                stp -= np.round(stp)
                unp = np.concatenate([pos[:1], pos[:1] + np.cumsum(stp, axis=0)], axis=0)
                own.append(own_D(unp, M, 3, dt))
            u = TrajectoryMetricsStd(parts).tracer_diffusivity(dimensions=3)
            ev(2)
            if not close(u.nominal_value, np.mean(own), 1e-9, 1e-30) or not close(u.std_dev, np.std(own), 1e-8, 1e-30):
                V('std-variant-wrong-with-single-frame-parts', f'n={n} part lengths {[len(p) for p in parts]}: {u.nominal_value}+-{u.std_dev} vs {np.mean(own)}+-{np.std(own)}')
    except Exception as e:  # noqa: BLE001
        V(f'std-variant-single-frame-raise-{type(e).__name__}', str(e))
    # --- mean / std over parts
    try:
        for n in (1, 2, 3):
            parts = traj.split(n)
            sm = TrajectoryMetricsStd(parts)
            own = []
            for p in parts:
                pos = np.array(p.positions)
                stp = np.diff(pos, axis=0)
                stp -= np.round(stp)
                unp = np.concatenate([pos[:1], pos[:1] + np.cumsum(stp, axis=0)], axis=0)
                own.append(own_D(unp, M, 2, dt))
            u = sm.tracer_diffusivity(dimensions=2)
            ev(2)
            if not close(u.nominal_value, np.mean(own)) or not close(u.std_dev, np.std(own), 1e-8, 1e-30):
                V('std-variant-tracer-diffusivity-wrong', f'n={n}: {u.nominal_value}+-{u.std_dev} vs {np.mean(own)}+-{np.std(own)}')
            c = sm.tracer_conductivity(z_ion=2, dimensions=2)
            ownc = [E_CH**2 * 4 * d * (3 / (vol * ANG**3)) / (KB * 300.0) for d in own]
            ev(2)
            if not close(c.nominal_value, np.mean(ownc)) or not close(c.std_dev, np.std(ownc), 1e-8, 1e-30):
                V('std-variant-tracer-conductivity-wrong', f'n={n}')
            va_parts = [float(TrajectoryMetrics(p).vibration_amplitude()) for p in parts]
            v = sm.vibration_amplitude()
            ev(2)
            if not close(v.nominal_value, np.mean(va_parts)) or not close(v.std_dev, np.std(va_parts), 1e-8, 1e-30):
                V('std-variant-vibration-amplitude-wrong', f'n={n}')
    except Exception as e:  # noqa: BLE001
        V(f'std-variant-raise-{type(e).__name__}', str(e))
    # --- a list whose members differ in cell and temperature (independent runs): each member enters with ITS OWN
    #     density and temperature, and the order of the list does not matter
    try:
        parts = traj.split(2)
        k2, temp2 = 1.1, 450.0
        other = concretise.make_trajectory(np.array(parts[1].positions), [str(s.symbol) for s in parts[1].species], M * k2, time_step=dt, temperature=temp2)
        ownc = []
        for p, Mp, tp in ((parts[0], M, 300.0), (other, M * k2, temp2)):
            pos = np.array(p.positions)
            stp = np.diff(pos, axis=0)
            stp -= np.round(stp)
            unp = np.concatenate([pos[:1], pos[:1] + np.cumsum(stp, axis=0)], axis=0)
            ownc.append(E_CH**2 * 4 * own_D(unp, Mp, 3, dt) * (pos.shape[1] / (abs(np.linalg.det(Mp)) * ANG**3)) / (KB * tp))
        for order in ((0, 1), (1, 0)):
            lst = [(parts[0], other)[i] for i in order]
            c = TrajectoryMetricsStd(lst).tracer_conductivity(z_ion=2, dimensions=3)
            ev(2)
            if not close(c.nominal_value, np.mean(ownc)) or not close(c.std_dev, np.std(ownc), 1e-8, 1e-30):
                V('std-variant-tracer-conductivity-wrong-for-runs-with-different-cell-and-temperature', f'order {order}: {c.nominal_value}+-{c.std_dev} vs {np.mean(ownc)}+-{np.std(ownc)}')
    except Exception as e:  # noqa: BLE001
        V(f'std-variant-heterogeneous-raise-{type(e).__name__}', str(e))
    return tuple(key)


def run_shard(shard) -> Result:
    res = Result()
    M = np.array(shard['M'])
    for T in (8, 9, 16):
        case = {'j': shard['j'], 'identical': shard['identical'], 'T': T, 'M': M.tolist()}
        key = evaluate(shard['j'], shard['identical'], T, M, res, case)
        res.outcome(hash((shard['lat'], shard['j'], shard['identical'], T, key)))
    res.sample({'track': shard['j'], 'identical_motion': shard['identical'], 'lattice': shard['lat'], 'frames': [8, 9, 16]})
    return res


def replay(case):
    res = Result()
    evaluate(case['j'], case['identical'], case['T'], np.array(case['M']), res, case)
    return [{'kind': v['kind'], 'detail': v['detail']} for v in res.viols]
