"""C12 — collective jumps are exactly the close-in-time/space pairs of different atoms.

Engine E1 over jump tables: every set of <= 2 jumps from alphabet J2 and every triple
(J3a x J3a x long-transit J3b) x windows x cut-offs is given to the real `Collective`, and the
reported pairs/counters are compared with the O(n^2) predicate of the statement evaluated with an
independent minimum-image distance. A second shard kind drives `Jumps.collective()` (window =
ceil(1/(attempt frequency x time step))) on state-level traces.
"""

from __future__ import annotations

import itertools
import math
import types

import numpy as np
import pandas as pd

from .. import alphabets, concretise, impl
from ..core import Result
from ..ref import geom, hop

ID = 'C12'
LEVEL = 'model_checking'
RULE = (
    'jump = (atom, origin, destination, start, stop); all unordered pairs over alphabet J2 (atoms 0/1 x '
    '4 site pairs x starts x durations), all triples J3a x J3a x J3b with J3b long-transit jumps of a third '
    'atom, x window lengths x cut-offs placed between all distinct site spacings (one spacing only through a '
    'cell face; four sites so that jumps can use disjoint site pairs; skewed cells with a cut-off between true and component-wise-rounded image distance; site structure with its own cell) x lattices; each table is one execution of the real Collective; distinct = distinct (table, window, cutoff, reported pair set)'
    '; reversed tables carry non-default row labels; cut-offs 0.0 / 0.7 / 0 through Jumps.collective on a four-site history whose two jumps share no site'
)
LEVEL_TEXT = (
    'Exhaustive over all jump tables of the bounded alphabet (incl. long-transit jumps overlapping '
    'several others, equal stop times, same-atom pairs, site pairs close only through a cell face), all '
    'windows and cut-offs; reported pairs, each-pair-once, solo/collective counters are compared with the '
    'statement\'s predicate on an independent minimum-image distance.'
)
LEVEL_NOTE = 'Trusted: gvmc/ref/geom.py; pandas. Tables are fed to the real Collective through an object with a .data frame (the same seam Jumps uses).'
TECHNIQUE = 'bounded-exhaustive enumeration of jump tables (explicit-state exploration of the pair scan) against a reference predicate'
ASSUMPTIONS = ['cut-offs are midpoints between distinct site spacings, so no distance ties occur', 'jump tables contain no two identical rows']

# four sites, so that two jumps can use disjoint site pairs (with three sites any two jumps share a site and the
# distance clause would be trivially true): 0-1 close, 2 close to 0 only through a cell face, 3 far from all
SITE_FRAC = [(0.03, 0.5, 0.5), (0.17, 0.5, 0.5), (0.95, 0.52, 0.5), (0.5, 0.1, 0.93)]
SITE_PAIRS = [(0, 1), (1, 0), (2, 3), (3, 2)]
COLS = ['atom index', 'start site', 'destination site', 'start time', 'stop time']


def lattice_list(tier, seed):
    L = alphabets.lattices(tier, seed)
    names = ('cubic6', 'tric-pmg-default') if tier == 'quick' else ('cubic6', 'tric-pmg-default', 'hex-a5-c7', 'tric-strong', 'ortho567-axes-permuted')
    return [l for l in L if l[0] in names]


_SKEW = {}


def skew_sites(M):
    """Site set for a skewed cell in which, for one site pair, the component-wise rounded image is NOT the
    minimum image (true distance smaller by > 0.3 A): separates a real minimum-image distance from the naive one."""
    key = np.asarray(M).tobytes()
    if key not in _SKEW:
        s0, s1 = np.array(SITE_FRAC[0]), np.array(SITE_FRAC[1])
        best = None
        grid = [0.05 + 0.1 * i for i in range(10)]
        for x in itertools.product(grid, repeat=3):
            d = np.array(x) - s0
            naive = np.linalg.norm((d - np.round(d)) @ np.asarray(M))
            true = float(geom.min_image_dist(s0, np.array(x), M))
            if naive - true > 0.3 and true > 1.0:
                if best is None or naive - true > best[0]:
                    best = (naive - true, x)
        if best:
            # origin and destination of each jump 0.01 (fractional) apart, so all four cross distances between
            # the jumps (0->1) and (2->3) are ~ d(s0, s2): true minimum image and naive image separate cleanly
            s2 = np.array(best[1])
            dl = np.array([0.01, 0.0, 0.0])
            _SKEW[key] = [tuple(s0), tuple(s0 + dl), tuple(s2), tuple(s2 + dl)]
        else:
            _SKEW[key] = None
    return _SKEW[key]


def site_set(shard_or_name, M):
    name = shard_or_name if isinstance(shard_or_name, str) else shard_or_name.get('sites', 'base')
    if name == 'skew':
        ss = skew_sites(M)
        if ss is not None:
            return ss
    return SITE_FRAC


def cutoffs(M, SITE_FRAC=SITE_FRAC):
    D = geom.dist_matrix(SITE_FRAC, SITE_FRAC, M)
    n = len(SITE_FRAC)
    ds = sorted({round(float(D[i, j]), 9) for i in range(n) for j in range(i + 1, n)})
    cuts = [ds[0] / 2] + [(a + b) / 2 for a, b in zip(ds, ds[1:])] + [ds[-1] + 0.5]
    if n == 4:
        # a cut-off between the true minimum-image cross distances and the component-wise rounded ones
        # (only differs from the above in skewed cells)
        Mx = np.asarray(M)
        df = np.asarray(SITE_FRAC)[:2, None, :] - np.asarray(SITE_FRAC)[None, 2:, :]
        naive = np.linalg.norm((df - np.round(df)) @ Mx, axis=-1)
        true = D[:2, 2:]
        if naive.min() - true.max() > 0.2:
            cuts.append(float((naive.min() + true.max()) / 2))
    return cuts, D


def J2(tier):
    starts = [0, 1, 6] if tier == 'quick' else [0, 1, 2, 3, 6]
    durs = [1, 6] if tier == 'quick' else [1, 2, 6]
    return [(a, o, d, s, s + k) for a in (0, 1) for (o, d) in SITE_PAIRS for s in starts for k in durs]


def J3a(tier):
    starts = [0, 1, 3] if tier == 'quick' else [0, 1, 3, 5]
    return [(o, d, s, s + k) for (o, d) in SITE_PAIRS[:3] for s in starts for k in (1, 2)]


def J3b(tier):
    return [(2, o, d, s, s + k) for (o, d) in [(3, 2), (0, 1)] for s in (0, 1) for k in ((6, 9) if tier == 'quick' else (4, 6, 9))]


WINDOWS = {'quick': [0, 1, 5], 'thorough': [0, 1, 2, 3, 5, 8]}


def shards(tier, seed):
    out = []
    for lname, M in lattice_list(tier, seed):
        j2 = J2(tier)
        n = len(j2)
        step = 3 if tier == 'quick' else 6
        for lo in range(0, n, step):
            out.append({'kind': 'pairs', 'lat': lname, 'M': M.tolist(), 'tier': tier, 'lo': lo, 'hi': min(lo + step, n)})
        ja = J3a(tier)
        for lo in range(0, len(ja), 1):
            out.append({'kind': 'triples', 'lat': lname, 'M': M.tolist(), 'tier': tier, 'lo': lo, 'hi': min(lo + 1, len(ja))})
    # skewed cells with a site pair whose naive (component-wise rounded) image is not the minimum image
    skew = [geom.from_parameters(5, 6, 7, 55, 110, 75), geom.from_parameters(6, 6, 6, 60, 60, 60), geom.from_parameters(5, 5, 7, 90, 90, 120)]
    for k, M in enumerate(skew):
        if skew_sites(M) is None:
            continue
        n = len(J2(tier))
        step = 6 if tier == 'quick' else 6
        for lo in range(0, n, step):
            if tier == 'quick' and (lo // step) % 2:
                continue
            out.append({'kind': 'pairs', 'lat': f'skew{k}', 'M': M.tolist(), 'tier': tier, 'lo': lo, 'hi': min(lo + step, n), 'sites': 'skew'})
    out.append({'kind': 'window', 'tier': tier})
    return out


def ref_pairs(jumps, w, cut, D):
    out = set()
    for x, y in itertools.combinations(sorted(jumps), 2):
        if x[0] == y[0]:
            continue
        if y[3] - x[4] > w or x[3] - y[4] > w:
            continue
        if min(D[p, q] for p in (x[1], x[2]) for q in (y[1], y[2])) < cut:
            out.add(frozenset((x, y)))
    return out


def row_of(ev):
    return tuple(int(ev[c]) for c in COLS)


def run_collective(jumps, M, w, cut, order=0, SITE_FRAC=SITE_FRAC):
    from pymatgen.core import Lattice

    from gemdat.collective import Collective

    rows = sorted(jumps)
    if order == 1:
        rows = rows[::-1]
    df = pd.DataFrame(data=np.array(rows, dtype=int).reshape(-1, 5), columns=COLS)
    if order == 1:
        df.index = [3 * k + 7 for k in range(len(df))][::-1]  # row labels as left behind by filtering / re-ordering a larger table
    # the site structure may carry its own cell: the `lattice` argument (simulation cell) defines the distances
    Ms = np.asarray(M) if order == 0 else (np.asarray(M) * 1.05) @ geom.rotation((12.0, 31.0, 47.0)).T
    sites = concretise.make_sites(np.array(SITE_FRAC), ['A', 'A', 'B', 'B'][: len(SITE_FRAC)], Ms)
    return Collective(jumps=types.SimpleNamespace(data=df), sites=sites, lattice=Lattice(np.asarray(M)), max_steps=w, max_dist=cut)


def check_table(jumps, M, w, cut, D, order=0, SITE_FRAC=SITE_FRAC):
    viols = []
    exp = ref_pairs(jumps, w, cut, D)
    try:
        c = run_collective(jumps, M, w, cut, order, SITE_FRAC)
    except Exception as e:  # noqa: BLE001
        return [(f'collective-raise-{type(e).__name__}', f'{e}')], ('raise',)
    try:
        first_read = (c.n_coll_jumps, c.n_solo_jumps) if (w + len(jumps)) % 2 else (c.n_solo_jumps, c.n_coll_jumps)
    except Exception as e:  # noqa: BLE001
        return [(f'result-attribute-raise-{type(e).__name__}', f'{e}')], ('raise-attr',)
    got_list = [frozenset((row_of(a), row_of(b))) for a, b in c.collective]
    got = set(got_list)
    if len(got_list) != len(got):
        viols.append(('pair-reported-twice', f'pairs={[sorted(p) for p in got_list]}'))
    if any(len(p) != 2 for p in got):
        viols.append(('jump-paired-with-itself', f'{got_list}'))
    if got != exp:
        miss = [sorted(p) for p in exp - got]
        extra = [sorted(p) for p in got - exp]
        if miss:
            viols.append(('collective-pair-missed', f'missing={miss} w={w} cut={cut:.3f} table={sorted(jumps)}'))
        if extra:
            same_atom = any(len({r[0] for r in p}) == 1 for p in got - exp)
            viols.append(('collective-pair-spurious' + ('-same-atom' if same_atom else ''), f'extra={extra} w={w} cut={cut:.3f} table={sorted(jumps)}'))
    n = len(jumps)
    in_pair = {r for p in got for r in p}
    if c.n_solo_jumps + c.n_coll_jumps != n:
        viols.append(('solo-plus-collective-not-total', f'{c.n_solo_jumps}+{c.n_coll_jumps} != {n}'))
    if c.n_coll_jumps != len(in_pair):
        viols.append(('n-coll-jumps-wrong', f'n_coll={c.n_coll_jumps} jumps in reported pairs={len(in_pair)}'))
    cj = [frozenset(((a, b), (x, y))) for (a, b), (x, y) in c.coll_jumps]
    if len(c.coll_jumps) != len(got_list):
        viols.append(('coll-jumps-length-mismatch', f'{len(c.coll_jumps)} vs {len(got_list)}'))
    return viols, (tuple(sorted(jumps)), w, round(cut, 6), tuple(sorted(tuple(sorted(p)) for p in got)))


def check_zero_cutoff(dt):
    """Through the Jumps interface, four sites: two simultaneous jumps of different atoms that share no site (closest
    sites 0.5 A apart). Cut-off exactly 0: no pair, whichever way 'within' is read; cut-off 0.7: the pair."""
    from gemdat.jumps import Jumps

    viols = []
    trace = [[1, 5], [1, 5], [3, 7], [3, 7], [3, 7]]
    M = np.eye(3) * 6.0
    traj = concretise.vib_traj(2, len(trace), M, dt)
    sites = concretise.make_sites(np.array(SITE_FRAC), ['A', 'A', 'B', 'B'], M)
    j = Jumps(impl.make_transitions(trace, 4, trajectory=traj, diff_trajectory=traj, sites=sites))
    D = geom.dist_matrix(SITE_FRAC, SITE_FRAC, M)
    rows = set(impl.jump_rows(j.data))
    for cut in (0.0, 0.7, 0):
        try:
            c = j.collective(max_dist=cut)
        except Exception as e:  # noqa: BLE001
            viols.append((f'jumps-collective-raise-{type(e).__name__}', f'max_dist={cut!r}: {e}'))
            continue
        exp = ref_pairs(rows, c.max_steps, cut, D)
        got = {frozenset((row_of(a), row_of(b))) for a, b in c.collective}
        if got != exp:
            viols.append(('jumps-collective-pairs-wrong-at-cut-off-zero' if cut == 0 else 'jumps-collective-pairs-wrong', f'max_dist={cut!r}: got {len(got)} pairs expected {len(exp)} (jumps share no site, closest sites {D[0, 2]:.2f} A apart)'))
    return viols


def check_window(trace, S, dt, cut):
    """Jumps.collective(): window = ceil(1/(attempt_frequency*dt)) and pairs as per predicate."""
    from gemdat.jumps import Jumps

    viols = []
    L, A = len(trace), len(trace[0])
    M = np.eye(3) * 6.0
    traj = concretise.vib_traj(A, L, M, dt)
    # the full trajectory also holds a framework species vibrating differently: the correlation window
    # must come from the diffusing atoms only
    full = concretise.vib_traj(A + 2, L, M, dt, species=['Li'] * A + ['O', 'O'])
    fc = np.array(full.positions)
    fc[:, A:, :] = fc[:, A:, :] + 0.07 * np.sin(np.arange(L) * 2.9)[:, None, None]
    full = concretise.make_trajectory(fc, ['Li'] * A + ['O', 'O'], M, time_step=dt, temperature=400.0)
    sites = concretise.make_sites(np.array(SITE_FRAC[:3]), ['A', 'A', 'B'], M)
    tr = impl.make_transitions(trace, S, trajectory=full, diff_trajectory=traj, sites=sites)
    try:
        j = Jumps(tr)
    except ValueError:
        return viols, ('nojumps',)
    nu = float(traj.metrics().attempt_frequency()[0])
    w = math.ceil(1.0 / (nu * dt))
    try:
        c = j.collective(max_dist=cut)
    except Exception as e:  # noqa: BLE001
        return [(f'jumps-collective-raise-{type(e).__name__}', str(e))], ('raise',)
    if c.max_steps != w:
        viols.append(('window-not-ceil-inverse-attempt-frequency', f'max_steps={c.max_steps} expected={w} nu={nu} dt={dt}'))
    # a result obtained earlier must not change when another cut-off is asked for afterwards
    snap = (c.max_dist, [frozenset((row_of(a), row_of(b))) for a, b in c.collective], c.n_solo_jumps)
    try:
        c_other = j.collective(max_dist=0.05)
        now = (c.max_dist, [frozenset((row_of(a), row_of(b))) for a, b in c.collective], c.n_solo_jumps)
        if now != snap:
            viols.append(('earlier-collective-result-changed-by-a-later-call', f'{snap[0]} -> {now[0]}, pairs {len(snap[1])} -> {len(now[1])}'))
        if len(c_other.collective) > len(snap[1]):
            viols.append(('smaller-cut-off-gives-more-pairs', ''))
    except Exception as e:  # noqa: BLE001
        viols.append((f'second-collective-raise-{type(e).__name__}', str(e)))
    D = geom.dist_matrix(SITE_FRAC[:3], SITE_FRAC[:3], M)
    rows = set(impl.jump_rows(j.data))
    exp = ref_pairs(rows, w, cut, D)
    got = {frozenset((row_of(a), row_of(b))) for a, b in c.collective}
    if got != exp:
        viols.append(('jumps-collective-pairs-wrong', f'got={[sorted(p) for p in got]} expected={[sorted(p) for p in exp]} w={w}'))
    if j.n_solo_jumps != len(rows) - len({r for p in exp for r in p}):
        viols.append(('n-solo-jumps-wrong', f'{j.n_solo_jumps}'))
    return viols, (w, tuple(sorted(tuple(sorted(p)) for p in got)))


def run_shard(shard) -> Result:
    res = Result()
    tier = shard['tier']
    if shard['kind'] == 'window':
        for dt in (1e-15, 5e-14):
            impl.clear_weak_caches()
            res.evals += 3
            for kind, detail in check_zero_cutoff(dt):
                res.violation(kind, {'zero_cutoff_dt': dt}, detail)
        frames = hop.frame_alphabet(2, 3, False)
        for L in (4, 5, 3):
            n = 0
            for tr_ in itertools.product(frames[1:8], repeat=L):
                trace = [list(f) for f in tr_]
                for dt in (1e-15, 5e-14):
                    impl.clear_weak_caches()
                    try:
                        viols, key = check_window(trace, 3, dt, 1.0)
                    except Exception as e:  # noqa: BLE001 (events/jumps builder failures are C03/C04 business)
                        continue
                    res.evals += 1
                    res.traces += 1
                    res.outcome(hash(key))
                    for kind, detail in viols:
                        res.violation(kind, {'window_trace': trace, 'dt': dt}, detail)
                n += 1
                if n >= (120 if tier == 'quick' else 2500):
                    break
        res.stats['window_cases'] += res.evals
        res.states += res.evals
        res.transitions += res.evals
        return res
    M = np.array(shard['M'])
    SF = site_set(shard, M)
    cuts, D = cutoffs(M, SF)
    tables = []
    if shard['kind'] == 'pairs':
        j2 = J2(tier)
        for i in range(shard['lo'], shard['hi']):
            tables.append((j2[i],))
            for k in range(i + 1, len(j2)):
                tables.append((j2[i], j2[k]))
    else:
        ja, jb = J3a(tier), J3b(tier)
        for i in range(shard['lo'], shard['hi']):
            for k in range(len(ja)):
                for z in jb:
                    tables.append(((0,) + ja[i], (1,) + ja[k], z))
    for t_index, table in enumerate(tables):
        if len(set(table)) != len(table):
            continue
        for w in WINDOWS[tier]:
            for cut in cuts:
                viols, key = check_table(set(table), M, w, cut, D, order=(t_index + w) % 2, SITE_FRAC=SF)
                res.evals += 1
                res.traces += 1
                res.outcome(hash(key))
                for kind, detail in viols:
                    res.violation(kind, {'table': sorted(table), 'M': M.tolist(), 'w': w, 'cut': cut, 'order': (t_index + w) % 2, 'sites': shard.get('sites', 'base')}, detail)
    if shard['kind'] == 'triples':
        # the same tables through the Jumps API (n_solo_jumps, solo_fraction), window from the real attempt frequency
        from gemdat.jumps import Jumps

        traj = concretise.vib_traj(3, 12, M, 1e-15)
        sites = concretise.make_sites(np.array(SF), ['A', 'A', 'B', 'B'][: len(SF)], M)
        nu = float(traj.metrics().attempt_frequency()[0])
        w_real = math.ceil(1.0 / (nu * 1e-15))
        for t_index, table in enumerate(tables[:: max(1, len(tables) // 40)]):
            if len(set(table)) != len(table):
                continue
            rows = sorted(table)
            df = pd.DataFrame(data=np.array(rows, dtype=int).reshape(-1, 5), columns=COLS)
            trn = types.SimpleNamespace(diff_trajectory=traj, sites=sites, n_sites=len(SF))
            try:
                j = Jumps(trn, conversion_method=lambda t, minimal_residence=0, _df=df: _df.copy())
                exp = ref_pairs(set(table), w_real, 1.0, D)  # Jumps.n_solo_jumps uses the default cut-off of 1 A
                solo_exp = len(rows) - len({r for p in exp for r in p})
                res.evals += 1
                if j.n_solo_jumps != solo_exp or abs(j.solo_fraction - solo_exp / len(rows)) > 1e-12:
                    res.violation('jumps-n-solo-jumps-wrong', {'table': rows, 'M': M.tolist(), 'w': w_real, 'cut': 1.0, 'sites': shard.get('sites', 'base')}, f'Jumps.n_solo_jumps={j.n_solo_jumps} solo_fraction={j.solo_fraction} expected {solo_exp} of {len(rows)} (pairs {len(exp)})')
                impl.clear_weak_caches()
            except Exception as e:  # noqa: BLE001
                res.violation(f'jumps-api-raise-{type(e).__name__}', {'table': rows, 'M': M.tolist(), 'w': 0, 'cut': 1.0}, str(e))
    res.states += len(tables)
    res.transitions += res.evals
    res.sample({'table': sorted(tables[len(tables) // 2]), 'windows': WINDOWS[tier], 'cutoffs': cuts, 'lattice': shard['lat']})
    res.stats[f'tables_{shard["kind"]}'] += len(tables)
    return res


def replay(case):
    if 'zero_cutoff_dt' in case:
        return [{'kind': k, 'detail': d} for k, d in check_zero_cutoff(case['zero_cutoff_dt'])]
    if 'window_trace' in case:
        viols, _ = check_window(case['window_trace'], 3, case['dt'], 1.0)
    else:
        M = np.array(case['M'])
        SF = site_set(case.get('sites', 'base'), M)
        _, D = cutoffs(M, SF)
        viols, _ = check_table({tuple(r) for r in case['table']}, M, case['w'], case['cut'], D, case.get('order', 0), SITE_FRAC=SF)
    return [{'kind': k, 'detail': d} for k, d in viols]
