"""C19 — time-partitioning for statistics conserves states and events.

Engine E1: (a) every hopping-model trace up to the bound x every n_parts in 1..min(#events, L-1)
through the real Transitions.split / Jumps.split / Jumps.rates; (b) Trajectory.split for every
length 2..Lmax x every n_parts < length x equal_parts.
"""

from __future__ import annotations

from collections import Counter

import numpy as np

from .. import concretise, impl, traces
from ..core import Result
from ..ref import hop

ID = 'C19'
LEVEL = 'model_checking'
RULE = (
    'all hopping-model traces for the listed bounds x all n_parts in 1..min(#events, frames-1): real '
    'Transitions.split, per-part Jumps, Jumps.split (also with minimal_residence=3), Jumps.rates; plus Trajectory.split for every '
    'length 2..Lmax x every n_parts < length x equal_parts in {False, True} on trajectories whose frames '
    'are individually identifiable (source in position or displacement mode); distinct = distinct (n_parts, per-part event tables) outcomes'
)
LEVEL_TEXT = (
    'Exhaustive over all site histories up to the bound and all admissible numbers of parts; for '
    'each the real split is checked for order, state conservation, each-event-exactly-once with a '
    'constant non-negative re-basing offset per part, and per-part jump counts against the whole. '
    'Trajectory.split is enumerated over every (length, n_parts, equal_parts) up to length 40 (quick) / 120 (thorough).'
)
LEVEL_NOTE = 'Trusted: gvmc/ref/hop.py; events of the whole come from the real event builder (C03). "Inside the part" is read as: re-based time >= 0, one constant offset per part, offsets non-decreasing, re-based time <= original time.'
TECHNIQUE = 'bounded-exhaustive trace x partition enumeration on the real split code (stateless model checking against conservation invariants)'
ASSUMPTIONS = [
    'n_parts > frames-1 (a part without frames) and n_parts > #events are outside the statement',
    'coverage of the last frame by Trajectory.split is not demanded (the statement does not)',
]

BOUNDS = {
    'quick': [dict(A=1, S=3, Lmax=4), dict(A=2, S=2, Lmax=2), dict(A=2, S=2, Lmin=3, Lmax=3, shell=False), dict(A=2, S=2, Lmin=4, Lmax=4, shell=False, only_n=[2]), dict(A=1, S=2, Lmin=5, Lmax=6, shell=False)],
    'thorough': [dict(A=1, S=3, Lmax=5), dict(A=2, S=2, Lmax=3), dict(A=1, S=2, Lmin=5, Lmax=8, shell=False), dict(A=2, S=2, Lmin=4, Lmax=4, shell=False), dict(A=1, S=3, Lmin=6, Lmax=6, shell=False)],
}
SPLIT_LMAX = {'quick': 40, 'thorough': 120}
CAPS = {'thorough': 2400}
M6 = (np.eye(3) * 6.0).tolist()


def shards(tier, seed):
    out = traces.make_shards(BOUNDS[tier], 400 if tier == 'quick' else 3000)
    for sh in out:
        sh['kind'] = 'trace'
    L = SPLIT_LMAX[tier]
    for lo in range(2, L + 1, 10):
        out.append({'kind': 'trajsplit', 'lo': lo, 'hi': min(lo + 9, L)})
    return out


def jumps_or_empty(tr, m=0):
    from gemdat.jumps import Jumps

    try:
        return impl.jump_rows(Jumps(tr, minimal_residence=m).data)
    except ValueError as e:
        if 'No jumps found' in str(e):
            return []
        raise


def check_trace(trace, S, only_n=None):
    viols = []
    keys = []
    L, A = len(trace), len(trace[0])
    ref_rows = hop.change_log(trace)
    if not ref_rows:
        return viols, ('nochange',), 0
    traj = concretise.vib_traj(A, L, M6, 1e-15)
    full = concretise.vib_traj(A + 2, L, M6, 1e-15, species=['Li'] * A + ['S', 'P'])
    try:
        tr = impl.make_transitions(trace, S, trajectory=full, diff_trajectory=traj)
    except Exception as e:  # noqa: BLE001 (C03's business)
        return viols, ('events-raise',), 0
    rows = impl.event_rows(tr.events)
    states = np.asarray(tr.states)
    inner = np.asarray(tr.inner_states)
    try:
        total_jumps = jumps_or_empty(tr)
    except Exception as e:  # noqa: BLE001 (C04's business)
        return viols, ('jumps-raise',), 0
    nmax = min(len(rows), L - 1)
    evals = 0
    for n in range(1, nmax + 1):
        if only_n and n not in only_n:
            continue
        evals += 1
        try:
            parts = tr.split(n)
        except Exception as e:  # noqa: BLE001
            viols.append((f'split-raise-{type(e).__name__}', f'n_parts={n}: {e}'))
            keys.append(('raise', n))
            continue
        if len(parts) != n:
            viols.append(('split-wrong-number-of-parts', f'n_parts={n} got {len(parts)}'))
            continue
        if any(p.n_floating != A or len(p.diff_trajectory.species) != A or len(p.trajectory.species) != A + 2 for p in parts):
            viols.append(('split-parts-mix-up-full-and-diffusing-trajectory', f'n_parts={n}: n_floating {[p.n_floating for p in parts]} expected {A}'))
        cat = np.concatenate([np.asarray(p.states) for p in parts], axis=0)
        cat_i = np.concatenate([np.asarray(p.inner_states) for p in parts], axis=0)
        if cat.shape != states.shape or not np.array_equal(cat, states) or not np.array_equal(cat_i, inner):
            viols.append(('split-states-not-conserved', f'n_parts={n} concat={cat.tolist()} original={states.tolist()}'))
        # events: per atom, the concatenation of the parts (in order) must reproduce the original sequence
        part_rows = [impl.event_rows(p.events) for p in parts]
        keys.append((n, tuple(tuple(r) for r in part_rows)))
        allr = [r for pr in part_rows for r in pr]
        if Counter(r[:5] for r in allr) != Counter(r[:5] for r in rows):
            viols.append(('split-events-not-conserved', f'n_parts={n} parts={part_rows} original={rows}'))
            continue
        ok = True
        offsets = []
        ptr = {a: 0 for a in range(A)}
        per_atom = {a: sorted((r for r in rows if r[0] == a), key=lambda r: r[5]) for a in range(A)}
        for k, pr in enumerate(part_rows):
            offs = set()
            for a in range(A):
                mine = sorted((r for r in pr if r[0] == a), key=lambda r: r[5])
                for r in mine:
                    o = per_atom[a][ptr[a]] if ptr[a] < len(per_atom[a]) else None
                    if o is None or o[:5] != r[:5]:
                        ok = False
                        break
                    ptr[a] += 1
                    if r[5] < 0:
                        viols.append(('split-negative-time', f'n_parts={n} part {k} row={r}'))
                    offs.add(o[5] - r[5])
                if not ok:
                    break
            if not ok:
                break
            if len(offs) > 1:
                viols.append(('split-offset-not-constant', f'n_parts={n} part {k}: offsets {sorted(offs)} rows={pr}'))
            if offs:
                offsets.append(min(offs))
        if not ok:
            viols.append(('split-events-out-of-order', f'n_parts={n} parts={part_rows} original={rows}'))
            continue
        if any(o < 0 for o in offsets) or offsets != sorted(offsets):
            viols.append(('split-offsets-not-chronological', f'n_parts={n} offsets={offsets}'))
        # a part is itself a Transitions object: splitting it once more (into one part) must conserve its events
        try:
            for k, p in enumerate(parts):
                if len(p.events) >= 1 and len(p.trajectory) >= 2 and len(p.diff_trajectory) >= 2:
                    again = p.split(1)
                    if impl.event_rows(again[0].events) != impl.event_rows(p.events) or not np.array_equal(np.asarray(again[0].states), np.asarray(p.states)):
                        viols.append(('resplitting-a-part-loses-or-changes-events', f'n_parts={n} part {k}'))
                    break
        except Exception as e:  # noqa: BLE001
            viols.append((f'resplit-raise-{type(e).__name__}', f'n_parts={n}: {e}'))
        # with a minimal residence the parts of Jumps.split must use the same setting as the whole
        has_shell = any(x != 0 and x % 2 == 0 for row in trace for x in row)
        for m in ((3,) if has_shell and n <= 3 else ()):
            try:
                whole_m = jumps_or_empty(tr, m)
                if whole_m:
                    from gemdat.jumps import Jumps

                    pm = [p.n_jumps for p in Jumps(tr, minimal_residence=m).split(n)]
                    own = [len(jumps_or_empty(p, m)) for p in parts]
                    if pm != own or sum(pm) > len(whole_m):
                        viols.append(('jumps-split-ignores-minimal-residence', f'n_parts={n} m={m}: Jumps.split counts={pm}, per-part counts with m={own}, whole={len(whole_m)}'))
            except ValueError as e:
                if 'No jumps found' not in str(e):
                    viols.append(('jumps-split-raise-ValueError', f'n_parts={n} m={m}: {e}'))
            except Exception as e:  # noqa: BLE001
                viols.append((f'jumps-split-raise-{type(e).__name__}', f'n_parts={n} m={m}: {e}'))
        # per-part jump counts
        try:
            counts = [len(jumps_or_empty(p)) for p in parts]
        except Exception as e:  # noqa: BLE001
            viols.append((f'part-jumps-raise-{type(e).__name__}', f'n_parts={n}: {e}'))
            continue
        if sum(counts) > len(total_jumps) or any(c > len(total_jumps) for c in counts):
            viols.append(('part-jump-counts-exceed-total', f'n_parts={n} counts={counts} total={len(total_jumps)}'))
        whole_pairs = Counter((r[0], r[1], r[2]) for r in total_jumps)
        parts_pairs = Counter()
        for p in parts:
            parts_pairs.update((r[0], r[1], r[2]) for r in jumps_or_empty(p))
        if any(v > whole_pairs[k] for k, v in parts_pairs.items()):
            viols.append(('part-has-a-jump-the-whole-does-not-have', f'n_parts={n}: per (atom, origin, destination) parts={dict(parts_pairs)} whole={dict(whole_pairs)}'))
        if total_jumps:
            from gemdat.jumps import Jumps

            j = Jumps(tr)
            try:
                jp = j.split(n)
                got = [p.n_jumps for p in jp]
                if 0 in counts or got != counts:
                    viols.append(('jumps-split-inconsistent', f'n_parts={n} Jumps.split counts={got} per-part counts={counts}'))
            except ValueError as e:
                if 'No jumps found' not in str(e) or 0 not in counts:
                    viols.append(('jumps-split-raise-ValueError', f'n_parts={n} counts={counts}: {e}'))
            except Exception as e:  # noqa: BLE001
                viols.append((f'jumps-split-raise-{type(e).__name__}', f'n_parts={n}: {e}'))
            if 0 not in counts and n >= 2:
                try:
                    r = j.rates(n_parts=n)
                    lab = j.sites.labels[0]
                    tot = sum(counts)
                    exp = (tot / n) / (A * (L * 1e-15) / n)
                    got = float(sum(r['rates']))
                    if abs(got - exp) > 1e-9 * max(abs(exp), 1):
                        viols.append(('rates-not-mean-over-parts', f'n_parts={n} sum of rates={got} expected={exp}'))
                except Exception as e:  # noqa: BLE001
                    viols.append((f'rates-raise-{type(e).__name__}', f'n_parts={n}: {e}'))
    return viols, tuple(keys), evals


def check_trajsplit(length, n, equal):
    M = np.eye(3) * 5.0
    coords = np.zeros((length, 2, 3))
    coords[:, 0, 0] = (np.arange(length) + 0.5) / 1000.0  # frame index readable from the data
    coords[:, 1, 1] = 0.5
    traj = concretise.make_trajectory(coords, ['Li', 'S'], M, time_step=2e-15)
    viols = []
    if (length + n) % 2:
        traj.displacements  # the source may be in either internal representation when it is split
    try:
        parts = traj.split(n, equal_parts=equal)
    except Exception as e:  # noqa: BLE001
        return [(f'trajectory-split-raise-{type(e).__name__}', f'len={length} n={n} equal={equal}: {e}')], ('raise',)
    if len(parts) != n:
        return [('trajectory-split-wrong-number', f'len={length} n={n} got {len(parts)}')], ('n',)
    ranges = []
    for p in parts:
        idx = np.rint(np.asarray(p.positions)[:, 0, 0] * 1000.0 - 0.5).astype(int).tolist()
        ranges.append(idx)
        if p.time_step != traj.time_step or len(p.species) != 2:
            viols.append(('trajectory-split-metadata-changed', f'len={length} n={n}'))
    flat = [i for r in ranges for i in r]
    if any(len(r) == 0 for r in ranges):
        viols.append(('trajectory-split-empty-part', f'len={length} n={n} equal={equal} ranges={ranges}'))
    if any(r != list(range(r[0], r[0] + len(r))) for r in ranges if r):
        viols.append(('trajectory-split-not-contiguous', f'len={length} n={n} equal={equal} ranges={ranges}'))
    if flat != sorted(flat) or len(set(flat)) != len(flat):
        viols.append(('trajectory-split-overlap-or-disorder', f'len={length} n={n} equal={equal} ranges={ranges}'))
    if any(i < 0 or i >= length for i in flat):
        viols.append(('trajectory-split-foreign-frames', f'len={length} n={n} ranges={ranges}'))
    if equal and len({len(r) for r in ranges}) != 1:
        viols.append(('trajectory-split-unequal', f'len={length} n={n} sizes={[len(r) for r in ranges]}'))
    return viols, (length, n, equal, tuple(len(r) for r in ranges), ranges[0][0] if ranges[0] else -1)


def run_shard(shard) -> Result:
    res = Result()
    if shard['kind'] == 'trajsplit':
        for length in range(shard['lo'], shard['hi'] + 1):
            for n in range(1, length):
                for equal in (False, True):
                    viols, key = check_trajsplit(length, n, equal)
                    res.evals += 1
                    res.traces += 1
                    res.states += 1
                    res.transitions += 1
                    res.outcome(hash(key))
                    for kind, detail in viols:
                        res.violation(kind, {'trajsplit': [length, n, equal]}, detail)
        res.sample({'trajectory_split': {'length': shard['lo'], 'n_parts': 1, 'equal_parts': False}})
        res.stats['trajectory_split_cases'] += res.evals
        return res
    S = shard['S']
    for k, trace in enumerate(traces.iter_shard(shard)):
        if k % 128 == 0:
            impl.clear_weak_caches()
        viols, key, evals = check_trace(trace, S, shard.get('only_n'))
        res.evals += evals
        res.traces += 1
        res.outcome(hash(key))
        for kind, detail in viols:
            res.violation(kind, {'trace': trace, 'n_sites': S}, detail)
        if k == 5:
            res.sample({'trace': trace, 'n_sites': S, 'n_parts_tried': evals})
    res.states += traces.tree_nodes(shard)
    res.transitions += traces.tree_nodes(shard)
    res.stats['split_evaluations'] += res.evals
    return res


def replay(case):
    if 'trajsplit' in case:
        viols, _ = check_trajsplit(*case['trajsplit'])
    else:
        viols, _, _ = check_trace(case['trace'], case['n_sites'])
    return [{'kind': k, 'detail': d} for k, d in viols]
