"""C04 — jumps are exactly the changes of visited site; stricter settings only remove.

Engine E1 (state level): every hopping-model trace up to the bound x every minimal residence is
run through the real `Jumps(...)` / `_generic_transitions_to_jumps` and compared with the
reference `default_jumps` of gvmc.ref.hop.
"""

from __future__ import annotations

import numpy as np

from .. import impl, traces
from ..core import Result
from ..ref import hop

ID = 'C04'
LEVEL = 'model_checking'
RULE = (
    'all traces of the hopping model for the listed (atoms, sites, frames) bounds, with shell '
    '(inner fraction < 1) and without (inner == outer), x minimal_residence in M; each (trace, m) is '
    'one execution of the real jump classifier; distinct = distinct (trace-outcome over all m) tables'
)
LEVEL_TEXT = (
    'Exhaustive exploration of every site/inner-site history up to the bound (1 atom x 3 sites x 6 '
    'frames with inner shells x minimal residence 0..3; 8 frames without shells; 2 atoms x 2 sites) '
    'through the real jump classifier; default jumps must equal the reference visited-site-change '
    'list exactly, stricter settings must yield subsets consistent with the states, monotone in the '
    'minimal residence.'
)
LEVEL_NOTE = 'Trusted: reference model gvmc/ref/hop.py (default_jumps), pandas. Bound: BOUNDS in gvmc/checks/c04.py; events come from the real event builder (C03).'
TECHNIQUE = 'bounded-exhaustive trace enumeration (stateless model checking of the real jump classifier against a reference model)'
ASSUMPTIONS = [
    "ValueError('No jumps found') is read as the empty jump table",
    'traces without any site/inner change are skipped (event table undefined, see C03)',
]

BOUNDS = {
    'quick': [
        dict(A=1, S=3, Lmax=4, M=[0, 1, 2, 3]),
        dict(A=1, S=3, Lmin=5, Lmax=5, M=[0, 2]),
        dict(A=1, S=3, Lmax=6, shell=False, M=[0, 1]),
        dict(A=2, S=2, Lmax=3, M=[0, 1]),
    ],
    'thorough': [
        dict(A=1, S=3, Lmax=6, M=[0, 1, 2, 3]),
        dict(A=1, S=3, Lmax=8, shell=False, M=[0, 1, 2]),
        dict(A=2, S=2, Lmax=3, M=[0, 1, 2]),
        dict(A=2, S=2, Lmin=4, Lmax=4, M=[0]),
        dict(A=1, S=2, Lmin=7, Lmax=7, M=[0, 3]),
    ],
}
CAPS = {'thorough': 1500}


def shards(tier, seed):
    return traces.make_shards(BOUNDS[tier], 600 if tier == 'quick' else 4000)


def real_jumps(tr, m):
    from gemdat.jumps import Jumps

    try:
        j = Jumps(tr, minimal_residence=m)
    except ValueError as e:
        if 'No jumps found' in str(e):
            return []
        raise
    return impl.jump_rows(j.data)


def check_trace(trace, S, M):
    viols = []
    if not hop.change_log(trace):
        return viols, ('nochange',)
    try:
        tr = impl.make_transitions(trace, S)
    except Exception as e:  # noqa: BLE001  (C03's business; reported there)
        return viols, ('events-raise', type(e).__name__)
    ev_before = impl.event_rows(tr.events)
    st_before = np.asarray(tr.states).copy()
    D = hop.default_jumps(trace)
    Dkeys = {(a, o, d, s) for a, o, d, s, _ in D}
    o_arr, _ = hop.state_arrays(trace)
    shellfree = all(x % 2 == 1 or x == 0 for row in trace for x in row)
    prev_rows = None
    keys = []
    for m in M:
        try:
            rows = real_jumps(tr, m)
        except Exception as e:  # noqa: BLE001
            viols.append((f'jumps-raise-{type(e).__name__}', f'm={m}: {e}'))
            keys.append(('raise', m))
            prev_rows = None
            continue
        keys.append(tuple(rows))
        if len(set(rows)) != len(rows):
            viols.append(('jumps-duplicate', f'm={m} rows={rows}'))
        if shellfree and m == 0:
            if sorted(rows) != sorted(D):
                kind = 'default-jumps-differ'
                if len(rows) > len(D):
                    kind = 'default-jumps-extra'
                elif len(rows) < len(D):
                    kind = 'default-jumps-missing'
                viols.append((kind, f'got={sorted(rows)} expected={sorted(D)}'))
        for a, o, d, s, e in rows:
            if (a, o, d, s) not in Dkeys:
                viols.append(('jump-not-a-default-jump', f'm={m} row={(a, o, d, s, e)} default={D}'))
                break
            if not (0 <= s < len(trace) and 0 <= e < len(trace)) or o_arr[s][a] != o or o_arr[e][a] != d:
                viols.append(('jump-inconsistent-with-states', f'm={m} row={(a, o, d, s, e)} states={[r[a] for r in o_arr]}'))
                break
        if prev_rows is not None and m == prev_m + 1:
            if not set(rows) <= set(prev_rows):
                viols.append(('residence-adds-jumps', f'm={prev_m}->{m}: {sorted(set(rows) - set(prev_rows))} appeared'))
        prev_rows, prev_m = rows, m
    if impl.event_rows(tr.events) != ev_before or not np.array_equal(np.asarray(tr.states), st_before):
        viols.append(('jump-classifier-modifies-events-or-states', ''))
    return viols, tuple(keys)


def run_shard(shard) -> Result:
    res = Result()
    S, M = shard['S'], shard['M']
    impl.clear_weak_caches()
    for n, trace in enumerate(traces.iter_shard(shard)):
        viols, key = check_trace(trace, S, M)
        res.evals += len(M)
        res.traces += 1
        res.outcome(hash(key))
        for kind, detail in viols:
            res.violation(kind, {'trace': trace, 'n_sites': S, 'M': M}, detail)
        if n == 1:
            res.sample({'trace': trace, 'n_sites': S, 'M': M, 'jump_tables_per_m': [list(k) if isinstance(k, tuple) else k for k in key]})
    res.states += traces.tree_nodes(shard)
    res.transitions += traces.tree_nodes(shard)
    res.stats[f'traces_A{shard["A"]}_S{S}_L{shard["L"]}_shell{int(shard["shell"])}'] += res.traces
    return res


def replay(case):
    viols, _ = check_trace(case['trace'], case['n_sites'], case['M'])
    return [{'kind': k, 'detail': d} for k, d in viols]
