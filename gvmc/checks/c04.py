"""C04 — jumps are exactly the changes of visited site; stricter settings only remove.

Engine E1 (state level): every hopping-model trace up to the bound x every minimal residence is
run through the real `Jumps(...)` / `_generic_transitions_to_jumps` and compared with the
reference `default_jumps` of gvmc.ref.hop.
"""

from __future__ import annotations

import numpy as np

from .. import impl, traces
from ..core import Result
from ..ref import hop

ID = 'C04'
LEVEL = 'model_checking'
RULE = (
    'all traces of the hopping model for the listed (atoms, sites, frames) bounds, with shell '
    '(inner fraction < 1) and without (inner == outer), x minimal_residence in M; each (trace, m) is '
    'one execution of the real jump classifier; plus an end-to-end shard (histories concretised as real trajectories in a triclinic cell, inner fraction 0.5, framework atoms first); events/states unchanged by the classifier; distinct = distinct (trace-outcome over all m) tables'
    '; one 33000-frame history with jumps after frame 32767 (m = 0, 3, 60)'
)
LEVEL_TEXT = (
    'Exhaustive exploration of every site/inner-site history up to the bound (1 atom x 3 sites x 6 '
    'frames with inner shells x minimal residence 0..3; 8 frames without shells; 2 atoms x 2 sites) '
    'through the real jump classifier; default jumps must equal the reference visited-site-change '
    'list exactly, stricter settings must yield subsets consistent with the states, monotone in the '
    'minimal residence.'
)
LEVEL_NOTE = 'Trusted: reference model gvmc/ref/hop.py (default_jumps), pandas. Bound: BOUNDS in gvmc/checks/c04.py; events come from the real event builder (C03).'
TECHNIQUE = 'bounded-exhaustive trace enumeration (stateless model checking of the real jump classifier against a reference model)'
ASSUMPTIONS = [
    "ValueError('No jumps found') is read as the empty jump table",
    'traces without any site/inner change are skipped (event table undefined, see C03)',
]

BOUNDS = {
    'quick': [
        dict(A=1, S=3, Lmax=4, M=[0, 1, 2, 3]),
        dict(A=1, S=3, Lmin=5, Lmax=5, M=[0, 2]),
        dict(A=1, S=3, Lmax=6, shell=False, M=[0, 1]),
        dict(A=2, S=2, Lmax=3, M=[0, 1]),
    ],
    'thorough': [
        dict(A=1, S=3, Lmax=6, M=[0, 1, 2, 3]),
        dict(A=1, S=3, Lmax=8, shell=False, M=[0, 1, 2]),
        dict(A=2, S=2, Lmax=3, M=[0, 1, 2]),
        dict(A=2, S=2, Lmin=4, Lmax=4, M=[0]),
        dict(A=1, S=2, Lmin=7, Lmax=7, M=[0, 3]),
    ],
}
CAPS = {'thorough': 1500}


E2E = {'quick': [dict(A=1, S=3, Lmax=3), dict(A=2, S=2, Lmin=2, Lmax=2)], 'thorough': [dict(A=1, S=3, Lmax=4), dict(A=2, S=2, Lmax=3)]}


def shards(tier, seed):
    out = traces.make_shards(BOUNDS[tier], 600 if tier == 'quick' else 4000)
    # end-to-end: the same histories concretised as real trajectories (inner fraction 0.5, diffusing species NOT the
    # first atoms of the trajectory), through transitions_between_sites and then the jump classifier
    for sh in traces.make_shards(E2E[tier], 120 if tier == 'quick' else 600):
        sh['e2e'] = True
        sh['M'] = [0, 2]
        out.append(sh)
    out.append({'long': True, 'L': 33000})
    return out


def long_trace(L):
    """One atom, three sites, a handful of visits separated by long waits; the last jumps happen after frame 32767."""
    marks = [(0, 1), (40, 0), (45, 3), (200, 0), (32750, 5), (32760, 0), (32770, 1), (32800, 3), (32900, 0), (32950, 5), (L - 2, 1)]
    trace, cur, k = [], 0, 0
    for t in range(L):
        while k < len(marks) and marks[k][0] == t:
            cur = marks[k][1]
            k += 1
        trace.append((cur,))
    return trace


def check_long(L):
    trace = long_trace(L)
    viols = []
    tr = impl.make_transitions(trace, 3)
    D = sorted(hop.default_jumps(trace))
    for m in (0, 3, 60):
        try:
            rows = sorted(real_jumps(tr, m))
        except Exception as e:  # noqa: BLE001
            viols.append((f'long-history-jumps-raise-{type(e).__name__}', f'm={m}: {e}'))
            continue
        if m == 0 and rows != D:
            viols.append(('long-history-default-jumps-differ', f'got={rows} expected={D}'))
        if any(r[:4] not in {d[:4] for d in D} for r in rows):
            viols.append(('long-history-jump-not-a-default-jump', f'm={m} got={rows} default={D}'))
    return viols


def real_jumps(tr, m):
    from gemdat.jumps import Jumps

    try:
        j = Jumps(tr, minimal_residence=m)
    except ValueError as e:
        if 'No jumps found' in str(e):
            return []
        raise
    return impl.jump_rows(j.data)


def check_trace(trace, S, M):
    viols = []
    if not hop.change_log(trace):
        return viols, ('nochange',)
    try:
        tr = impl.make_transitions(trace, S)
    except Exception as e:  # noqa: BLE001  (C03's business; reported there)
        return viols, ('events-raise', type(e).__name__)
    ev_before = impl.event_rows(tr.events)
    st_before = np.asarray(tr.states).copy()
    D = hop.default_jumps(trace)
    Dkeys = {(a, o, d, s) for a, o, d, s, _ in D}
    o_arr, _ = hop.state_arrays(trace)
    shellfree = all(x % 2 == 1 or x == 0 for row in trace for x in row)
    prev_rows = None
    keys = []
    for m in M:
        try:
            rows = real_jumps(tr, m)
        except Exception as e:  # noqa: BLE001
            viols.append((f'jumps-raise-{type(e).__name__}', f'm={m}: {e}'))
            keys.append(('raise', m))
            prev_rows = None
            continue
        keys.append(tuple(rows))
        if len(set(rows)) != len(rows):
            viols.append(('jumps-duplicate', f'm={m} rows={rows}'))
        if len({r[:4] for r in rows}) != len(rows):
            viols.append(('default-jump-reported-more-than-once', f'm={m} rows={rows}'))
        if shellfree and m == 0:
            if sorted(rows) != sorted(D):
                kind = 'default-jumps-differ'
                if len(rows) > len(D):
                    kind = 'default-jumps-extra'
                elif len(rows) < len(D):
                    kind = 'default-jumps-missing'
                viols.append((kind, f'got={sorted(rows)} expected={sorted(D)}'))
        for a, o, d, s, e in rows:
            if (a, o, d, s) not in Dkeys:
                viols.append(('jump-not-a-default-jump', f'm={m} row={(a, o, d, s, e)} default={D}'))
                break
            if not (0 <= s < len(trace) and 0 <= e < len(trace)) or o_arr[s][a] != o or o_arr[e][a] != d:
                viols.append(('jump-inconsistent-with-states', f'm={m} row={(a, o, d, s, e)} states={[r[a] for r in o_arr]}'))
                break
        if prev_rows is not None and m == prev_m + 1:
            if not set(rows) <= set(prev_rows):
                viols.append(('residence-adds-jumps', f'm={prev_m}->{m}: {sorted(set(rows) - set(prev_rows))} appeared'))
        prev_rows, prev_m = rows, m
    if impl.event_rows(tr.events) != ev_before or not np.array_equal(np.asarray(tr.states), st_before):
        viols.append(('jump-classifier-modifies-events-or-states', ''))
    if len(trace[0]) > 1:
        # the same events listed in chronological order (atoms interleaved) describe the same jumps
        try:
            tr2 = impl.make_transitions(trace, S, events=tr.events.sort_values(['time', 'atom index'], kind='stable', ignore_index=True))
            if sorted(real_jumps(tr2, M[0])) != sorted(real_jumps(tr, M[0])):
                viols.append(('jumps-depend-on-the-order-of-the-event-rows', f'm={M[0]}'))
            ev3 = tr.events.copy()
            ev3.index = ev3['time'].to_numpy()  # row labels repeat across atoms (e.g. per-atom tables concatenated)
            tr3 = impl.make_transitions(trace, S, events=ev3)
            if sorted(real_jumps(tr3, M[0])) != sorted(real_jumps(tr, M[0])):
                viols.append(('jumps-depend-on-the-row-labels-of-the-event-table', f'm={M[0]}'))
        except Exception as e:  # noqa: BLE001
            viols.append((f'jumps-reordered-events-raise-{type(e).__name__}', str(e)))
    return viols, tuple(keys)


E2E_SITES = [(0.0031, 0.0047, 0.0023), (0.4331, 0.4747, 0.0023), (0.9831, 0.5347, 0.4123)]


def check_e2e(trace, S, M):
    from .. import concretise
    from ..ref import geom

    viols = []
    if not hop.change_log(trace):
        return viols, ('nochange',)
    Mx = geom.from_parameters(5, 6, 7, 70, 80, 100)
    A = len(trace[0])
    try:
        coords = concretise.concretise(trace, Mx, np.array(E2E_SITES[:S]), [0.6] * S, 0.5, framework=[(0.31, 0.29, 0.33), (0.8, 0.15, 0.2)])
    except concretise.Unrealisable:
        return viols, ('unrealisable',)
    order = [A, A + 1] + list(range(A))  # framework atoms first
    traj = concretise.make_trajectory(coords[:, order, :], ['S', 'P'] + ['Li'] * A, Mx)
    sites = concretise.make_sites(np.array(E2E_SITES[:S]), ['A', 'B', 'A'][:S], Mx)
    try:
        tr = traj.transitions_between_sites(sites, 'Li', site_radius=0.6, site_inner_fraction=0.5)
    except Exception as e:  # noqa: BLE001
        return [(f'e2e-transitions-raise-{type(e).__name__}', str(e))], ('raise',)
    o, i = hop.state_arrays(trace)
    if np.asarray(tr.states).tolist() != o or np.asarray(tr.inner_states).tolist() != i:
        return [('e2e-states-not-those-of-the-history', f'states {np.asarray(tr.states).tolist()} inner {np.asarray(tr.inner_states).tolist()} expected {o} {i}')], ('states',)
    D = hop.default_jumps(trace)
    Dkeys = {(a, oo, d, s) for a, oo, d, s, _ in D}
    keys = []
    prev = None
    for m in M:
        try:
            rows = real_jumps(tr, m)
        except Exception as e:  # noqa: BLE001
            viols.append((f'e2e-jumps-raise-{type(e).__name__}', f'm={m}: {e}'))
            continue
        keys.append(tuple(rows))
        for a, oo, d, s, e in rows:
            if (a, oo, d, s) not in Dkeys or o[s][a] != oo or o[e][a] != d:
                viols.append(('e2e-jump-not-a-default-jump-or-inconsistent', f'm={m} row={(a, oo, d, s, e)} default={D}'))
                break
        if prev is not None and not set(rows) <= set(prev):
            viols.append(('e2e-residence-adds-jumps', f'm={m}'))
        prev = rows
    return viols, tuple(keys)


def run_shard(shard) -> Result:
    res = Result()
    if shard.get('long'):
        impl.clear_weak_caches()
        for kind, detail in check_long(shard['L']):
            res.violation(kind, {'long_L': shard['L']}, detail)
        res.evals += 3
        res.traces += 1
        res.states += shard['L']
        res.transitions += shard['L']
        res.outcome(('long', shard['L']))
        res.stats['long_history_frames'] += shard['L']
        return res
    if shard.get('e2e'):
        S, M = shard['S'], shard['M']
        for n, trace in enumerate(traces.iter_shard(shard)):
            impl.clear_weak_caches()
            viols, key = check_e2e(trace, S, M)
            res.evals += len(M)
            res.traces += 1
            res.outcome(hash(('e2e', key)))
            for kind, detail in viols:
                res.violation(kind, {'trace': trace, 'n_sites': S, 'M': M, 'e2e': True}, detail)
        res.states += traces.tree_nodes(shard)
        res.transitions += traces.tree_nodes(shard)
        res.stats['e2e_traces'] += res.traces
        return res
    S, M = shard['S'], shard['M']
    impl.clear_weak_caches()
    for n, trace in enumerate(traces.iter_shard(shard)):
        viols, key = check_trace(trace, S, M)
        res.evals += len(M)
        res.traces += 1
        res.outcome(hash(key))
        for kind, detail in viols:
            res.violation(kind, {'trace': trace, 'n_sites': S, 'M': M}, detail)
        if n == 1:
            res.sample({'trace': trace, 'n_sites': S, 'M': M, 'jump_tables_per_m': [list(k) if isinstance(k, tuple) else k for k in key]})
    res.states += traces.tree_nodes(shard)
    res.transitions += traces.tree_nodes(shard)
    res.stats[f'traces_A{shard["A"]}_S{S}_L{shard["L"]}_shell{int(shard["shell"])}'] += res.traces
    return res


def replay(case):
    if 'long_L' in case:
        return [{'kind': k, 'detail': d} for k, d in check_long(case['long_L'])]
    if case.get('e2e'):
        viols, _ = check_e2e(case['trace'], case['n_sites'], case['M'])
        return [{'kind': k, 'detail': d} for k, d in viols]
    viols, _ = check_trace(case['trace'], case['n_sites'], case['M'])
    return [{'kind': k, 'detail': d} for k, d in viols]
