"""C06 — mean squared displacement and tracer diffusivity equal their definitions.

Engine E1 (input-shape mode): all step histories over a 5-value fractional step alphabet (|step| <
1/2, so the minimum image is unambiguous) up to the frame bound, 1-3 atoms on different tracks, on
every lattice, with wrapped input coordinates; plus a sweep over every trajectory length 2..48
(FFT padding / parity). Oracle: O(T^2) definition on own unwrapped Cartesian positions.
"""

from __future__ import annotations

import itertools

import numpy as np

from .. import alphabets, concretise
from ..core import Result

ID = 'C06'
LEVEL = 'exploration'
RULE = (
    'step alphabet {-0.45,-0.2,0,0.2,0.45}: all single-axis step histories up to T frames (per axis), all '
    '3-axis step histories for T<=3, N in {1,2,3} atoms on different (derived) tracks, x LATTICES x dimensions '
    '{1,2,3} asked of ONE metrics object in turn; query-then-extend history; length sweep T=2..48 over 20 fixed tracks; one trajectory of 3 x 30000 frames (> 2^18 coordinates); input coordinates are wrapped into [0,1); distinct = '
    'distinct MSD arrays (rounded to 1e-9)'
    '; driven ions: 3 atoms x 1500 frames with 150 cells of net travel (MSD at lags 0,1,2,17,..., distance from the start in every frame)'
)
LEVEL_TEXT = (
    'Bounded-exhaustive over all step histories of the alphabet up to 6 (quick) / 8 (thorough) frames, '
    'multi-atom tracks, all lattices and every length up to 48; MSD at every lag, distances and tracer '
    'diffusivity are compared with the O(T^2) definition on independently unwrapped Cartesian positions.'
)
LEVEL_NOTE = 'Trusted: numpy; the oracle unwraps by construction (positions are built from the steps). Tolerance rtol 1e-9 / atol 1e-9 A^2.'
TECHNIQUE = 'bounded-exhaustive input-shape enumeration against the O(T^2) definition'
ASSUMPTIONS = ['every step is shorter than half a cell (otherwise the minimum image legitimately differs from the true motion)']

STEPS = [-0.45, -0.2, 0.0, 0.2, 0.45]
TMAX = {'quick': 6, 'thorough': 8}
CAPS = {'thorough': 2400}
ANG2 = 1e-20


def shards(tier, seed):
    out = []
    lats = alphabets.lattices(tier, seed)
    for lname, M in lats:
        for axis in range(3):
            for T in range(2, TMAX[tier] + 1):
                n = 5 ** (T - 1)
                if n <= 3125:
                    out.append({'kind': 'axis', 'lat': lname, 'M': M.tolist(), 'axis': axis, 'T': T, 'prefix': []})
                else:
                    plen = 0
                    while 5 ** (T - 1 - plen) > 3125:
                        plen += 1
                    for pre in itertools.product(range(5), repeat=plen):
                        out.append({'kind': 'axis', 'lat': lname, 'M': M.tolist(), 'axis': axis, 'T': T, 'prefix': list(pre)})
        for k in range(5):
            out.append({'kind': 'all3', 'lat': lname, 'M': M.tolist(), 'k': k})
        out.append({'kind': 'sweep', 'lat': lname, 'M': M.tolist()})
    # sizes around 2^18 coordinates (a natural block size for FFT work)
    out.append({'kind': 'large', 'N': 3, 'T': 30000})
    out.append({'kind': 'large', 'N': 3, 'T': 1500, 'driven': 0.1})  # driven ions: 150 cells of net travel along one axis
    if tier == 'thorough':
        out.append({'kind': 'large', 'N': 40, 'T': 2300})
    return out


def derived_tracks(steps, N):
    """steps (T-1, 3) -> (T-1, N, 3): atom 0 = steps, atom 1 = reversed & negated, atom 2 = axes rolled."""
    out = [steps]
    if N > 1:
        out.append(-steps[::-1])
    if N > 2:
        out.append(np.roll(steps, 1, axis=1) * 0.5)
    return np.stack(out, axis=1)


def evaluate(steps, M, N, dim, dt=2e-15):
    """steps: (T-1, 3) fractional steps of atom 0."""
    M = np.asarray(M)
    st = derived_tracks(np.asarray(steps, dtype=float), N)
    T = st.shape[0] + 1
    x0 = np.array([[0.05, 0.95, 0.5], [0.5, 0.02, 0.98], [0.3, 0.6, 0.0]])[:N]
    unwrapped = np.concatenate([x0[None], x0[None] + np.cumsum(st, axis=0)], axis=0)  # (T, N, 3)
    wrapped = np.mod(unwrapped, 1)
    wrapped[wrapped == 1] = 0
    variant = int(abs(st).sum() * 1000) % 3
    if variant == 1:
        # constructed from displacements (as apply_drift_correction does)
        disp = np.concatenate([np.zeros((1, N, 3)), st], axis=0)
        traj = concretise.make_trajectory(disp, ['Li'] * N, M, time_step=dt, coords_are_displacement=True, base_positions=x0.copy())
    elif variant == 2:
        # raw, unwrapped input whose first frame lies outside the cell
        traj = concretise.make_trajectory(unwrapped + np.array([1.0, -2.0, 3.0]), ['Li'] * N, M, time_step=dt)
    else:
        traj = concretise.make_trajectory(wrapped, ['Li'] * N, M, time_step=dt)
    viols = []
    r = unwrapped @ M
    own = np.zeros((N, T))
    for lag in range(T):
        diff = r[lag:] - r[: T - lag]
        own[:, lag] = np.mean(np.sum(diff**2, axis=-1), axis=0)
    try:
        msd = np.asarray(traj.mean_squared_displacement())
        if msd.shape != (N, T) or not np.allclose(msd, own, rtol=1e-9, atol=1e-9):
            viols.append(('msd-differs-from-definition', f'got={np.round(msd, 6).tolist()} own={np.round(own, 6).tolist()} steps={np.asarray(steps).tolist()}'))
        if np.any(np.abs(msd[:, 0]) > 1e-9):
            viols.append(('msd-lag0-not-zero', f'{msd[:, 0].tolist()}'))
        key = np.round(msd, 9).tobytes()
    except Exception as e:  # noqa: BLE001
        viols.append((f'msd-raise-{type(e).__name__}', str(e)))
        key = b'raise'
    try:
        dist = np.asarray(traj.distances_from_base_position())
        own_d = np.linalg.norm(r - r[0][None], axis=-1).T
        if dist.shape != own_d.shape or not np.allclose(dist, own_d, rtol=1e-9, atol=1e-9):
            viols.append(('distance-differs-from-cartesian-length', f'got={np.round(dist, 6).tolist()} own={np.round(own_d, 6).tolist()}'))
        mobj = traj.metrics()  # ONE metrics object asked for every dimension in turn
        for dm in (dim, 1 + dim % 3, 1 + (dim + 1) % 3):
            D = float(mobj.tracer_diffusivity(dimensions=dm))
            own_D = np.mean(own_d[:, -1] ** 2) * ANG2 / (2 * dm * T * dt)
            if abs(D - own_D) > 1e-9 * max(abs(own_D), ANG2 / (T * dt) * 1e-3):
                viols.append(('tracer-diffusivity-differs-from-definition', f'got={D} own={own_D} dim={dm} (asked after {dim}) N={N} T={T}'))
                break
    except Exception as e:  # noqa: BLE001
        viols.append((f'diffusivity-raise-{type(e).__name__}', str(e)))
    try:
        before = np.asarray(traj.mean_squared_displacement()).copy()
        traj.apply_drift_correction()
        after = np.asarray(traj.mean_squared_displacement())
        if not np.allclose(before, after, rtol=1e-9, atol=1e-9):
            viols.append(('msd-of-the-source-changed-by-a-drift-correction', ''))
    except Exception as e:  # noqa: BLE001
        viols.append((f'drift-correction-raise-{type(e).__name__}', str(e)))
    # start from a non-initial object too: query the first k frames, extend in place with the rest, and ask
    # again - the answers must be those of the whole trajectory (differential form of the same definitions)
    if T >= 4:
        k = T // 2
        try:
            ta = concretise.make_trajectory(wrapped[:k], ['Li'] * N, M, time_step=dt)
            tb = concretise.make_trajectory(wrapped[k:], ['Li'] * N, M, time_step=dt)
            ta.mean_squared_displacement()
            ta.distances_from_base_position()
            ta.metrics().tracer_diffusivity(dimensions=dim)
            ta.extend(tb)
            msd2 = np.asarray(ta.mean_squared_displacement())
            dist2 = np.asarray(ta.distances_from_base_position())
            D2 = float(ta.metrics().tracer_diffusivity(dimensions=dim))
            own_D = np.mean(np.sum(((unwrapped[-1] - unwrapped[0]) @ M) ** 2, axis=-1)) * ANG2 / (2 * dim * T * dt)
            if msd2.shape != own.shape or not np.allclose(msd2, own, rtol=1e-9, atol=1e-9):
                viols.append(('msd-after-query-and-extend-differs-from-definition', f'shape {msd2.shape} vs {own.shape}'))
            if dist2.shape != (N, T) or not np.allclose(dist2, np.linalg.norm(r - r[0][None], axis=-1).T, rtol=1e-9, atol=1e-9):
                viols.append(('distance-after-query-and-extend-differs-from-definition', f'shape {dist2.shape}'))
            if abs(D2 - own_D) > 1e-9 * max(abs(own_D), ANG2 / (T * dt) * 1e-3):
                viols.append(('tracer-diffusivity-after-query-and-extend-differs', f'{D2} vs {own_D}'))
        except Exception as e:  # noqa: BLE001
            viols.append((f'query-extend-raise-{type(e).__name__}', str(e)))
    return viols, key


def run_shard(shard) -> Result:
    res = Result()
    M = np.array(shard['M']) if 'M' in shard else None

    def rec(steps, N, dim):
        viols, key = evaluate(steps, M, N, dim)
        res.evals += 1
        res.outcome(hash(key))
        for kind, detail in viols:
            res.violation(kind, {'steps': np.asarray(steps).tolist(), 'M': M.tolist(), 'N': N, 'dim': dim}, detail)

    if shard['kind'] == 'large':
        N, T = shard['N'], shard['T']
        M = geom_tric()
        t = np.arange(T - 1)[:, None, None]
        a = np.arange(N)[None, :, None]
        c = np.arange(3)[None, None, :]
        steps = 0.3 * np.sin(0.37 * t + 1.3 * a + 2.1 * c) + 0.05 * ((t + a) % 3 - 1)
        if shard.get('driven'):
            steps = 0.02 * np.sin(0.37 * t + 1.3 * a + 2.1 * c) + 0.0 * a
            steps[:, :, 0] += shard['driven'] * (1 + 0.1 * np.arange(N))[None, :]  # every frame a tenth of a cell further
        x0 = np.tile(np.array([[0.05, 0.95, 0.5]]), (N, 1)) + 0.01 * np.arange(N)[:, None]
        un = np.concatenate([x0[None], x0[None] + np.cumsum(steps, axis=0)], axis=0)
        w = np.mod(un, 1)
        w[w == 1] = 0
        traj = concretise.make_trajectory(w, ['Li'] * N, M, time_step=2e-15)
        case = {'large': [N, T], 'driven': shard.get('driven')}
        try:
            msd = np.asarray(traj.mean_squared_displacement())
            r = un @ M
            dist = np.asarray(traj.distances_from_base_position())
            own_dist = np.linalg.norm(r - r[0][None], axis=-1).T
            res.evals += N
            if dist.shape != own_dist.shape or not np.allclose(dist, own_dist, rtol=1e-9, atol=1e-7):
                bad_t = int(np.argmax(np.any(np.abs(dist - own_dist) > 1e-7 + 1e-9 * own_dist, axis=0))) if dist.shape == own_dist.shape else -1
                res.violation('distance-from-start-differs-from-definition', case, f'large trajectory N={N} T={T}: first wrong frame {bad_t}')
            for lag in (0, 1, 2, 17, T // 2, T - 2, T - 1):
                d = r[lag:] - r[: T - lag]
                own = np.mean(np.sum(d * d, axis=-1), axis=0)
                res.evals += N
                if not np.allclose(msd[:, lag], own, rtol=1e-7, atol=1e-6):
                    res.violation('msd-differs-from-definition', case, f'large trajectory N={N} T={T} lag={lag}: got {msd[:, lag].tolist()} own {own.tolist()}')
                    break
            res.outcome(('large', N, T, float(np.round(msd[0, 1], 6))))
        except Exception as e:  # noqa: BLE001
            res.violation(f'msd-raise-{type(e).__name__}', case, str(e))
        res.sample({'large_trajectory': {'atoms': N, 'frames': T}})
        return res
    if shard['kind'] == 'axis':
        T, axis = shard['T'], shard['axis']
        pre = [STEPS[i] for i in shard['prefix']]
        for k, rest in enumerate(itertools.product(STEPS, repeat=T - 1 - len(pre))):
            steps = np.zeros((T - 1, 3))
            steps[:, axis] = pre + list(rest)
            rec(steps, 1 + k % 3, 1 + (k // 3) % 3)
        res.sample({'axis': axis, 'frames': T, 'steps_on_axis': (pre + list(rest)), 'lattice': shard['lat']})
    elif shard['kind'] == 'all3':
        s0 = STEPS[shard['k']]
        for k, rest in enumerate(itertools.product(STEPS, repeat=5)):
            steps = np.array([s0] + list(rest)).reshape(2, 3)
            rec(steps, 1 + k % 3, 1 + (k // 3) % 3)
        res.sample({'three_axis_steps_T3_first': s0, 'lattice': shard['lat']})
    else:
        fam = []
        for j in range(20):
            fam.append(lambda t, j=j: np.array([STEPS[(t * (j + 1) + j) % 5], STEPS[(t * 3 + 2 * j) % 5] * 0.5, STEPS[(t + j * j) % 5] * 0.25]))
        for T in range(2, 49):
            for j, f in enumerate(fam):
                steps = np.array([f(t) for t in range(T - 1)])
                rec(steps, 1 + j % 3, 1 + j % 3)
        res.sample({'length_sweep': '2..48', 'tracks': 20, 'lattice': shard['lat']})
    res.stats[f'evals_{shard["kind"]}'] += res.evals
    return res


def geom_tric():
    from ..ref import geom

    return geom.from_parameters(5, 6, 7, 70, 80, 100)


def replay(case):
    if 'large' in case:
        r = run_shard({'kind': 'large', 'N': case['large'][0], 'T': case['large'][1], 'driven': case.get('driven')})
        return [{'kind': v['kind'], 'detail': v['detail']} for v in r.viols]
    viols, _ = evaluate(np.array(case['steps']), np.array(case['M']), case['N'], case['dim'])
    return [{'kind': k, 'detail': d} for k, d in viols]
