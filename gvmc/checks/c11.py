"""C11 — radial distributions equal brute-force histograms and partition over states.

Engine E1 (end-to-end on concretised traces): hopping traces of two Li atoms over three labelled
sites are turned into real trajectories (plus S, S, P framework atoms from a position alphabet) in
every lattice; the real transitions are computed, then radial_distribution (per state) and
radial_distribution_between_species are compared with brute-force histograms of own minimum-image
distances, per state name derived from the symbolic trace.
"""

from __future__ import annotations

import itertools
import math
from collections import defaultdict

import numpy as np

from .. import alphabets, concretise
from ..core import Result
from ..ref import geom, hop

ID = 'C11'
LEVEL = 'exploration'
RULE = (
    'traces: 2 Li atoms x 3 sites (no shell): all traces with 2 frames, 3-frame traces = all histories of atom 0 x 4 '
    'fixed tracks of atom 1 (thorough: all 3-frame traces, 4-frame for one atom); labels {ABA, ABC, AAA}; framework S,S,P '
    'from a 3-position alphabet; LATTICES; (max_dist, resolution) in {(2,0.5),(3,0.3),(5,0.1),(2,0.3)}; both species orders; S atoms as one species or as two species '
    'sharing the symbol; site structure with its own cell; states must not depend on the inner fraction; '
    'evaluation = one (frame, Li atom, other atom) pair; distinct = distinct (scenario, histogram) outcomes'
)
LEVEL_TEXT = (
    'Bounded-exhaustive over the trace/label/lattice/parameter alphabet; every per-state histogram (state names '
    'derived from the symbolic trace: @X, X->Y, and one merged bucket for states without previous or next site) '
    'and the species-pair distribution incl. shell normalisation and symmetry of raw counts are compared with '
    'brute-force counts over own minimum-image distances.'
)
LEVEL_NOTE = 'Trusted: gvmc/ref/geom.py, gvmc/ref/hop.py. Bin 0 of the per-state histograms (distance exactly 0 = self pairs) and, for equal species, self pairs are dont-care; pairs within 1e-9 of a bin edge make the two adjacent bins dont-care.'
TECHNIQUE = 'bounded-exhaustive end-to-end trace enumeration against brute-force histograms'
ASSUMPTIONS = ['state names are derived from the site states the real code reports (C02 decides whether those are right)']

R_SITE = 0.6
PARAMS = [(2.0, 0.5), (3.0, 0.3), (5.0, 0.1), (2.0, 0.3)]  # last: cut-off is not a whole number of shells
FRAME_POS = [(0.3, 0.3, 0.3), (0.62, 0.4, 0.71), (0.15, 0.8, 0.45)]
TRACKS1 = [(1, 1, 1), (3, 0, 5), (0, 5, 5), (5, 0, 1)]


def run_large(res):
    """30 x 40 atoms over 1003 frames (1.2 million pair distances): every frame must be counted."""
    from gemdat.rdf import radial_distribution_between_species

    T, n1, n2 = 1003, 30, 40
    M = np.eye(3) * 9.0
    k = np.arange(T)[:, None, None]
    a = np.arange(n1 + n2)[None, :, None]
    c = np.arange(3)[None, None, :]
    coords = np.mod(0.6180339887 * (a * 3 + c + 1) * (1 + 0.01 * c) + 0.013 * np.sin(0.37 * k + a + c) + 0.0007 * k * (c + 1), 1.0)
    traj = concretise.make_trajectory(coords, ['Li'] * n1 + ['S'] * n2, M, time_step=1e-15)
    max_dist, reso = 3.0, 0.5
    bins = np.arange(0, max_dist + reso, reso)
    d = coords[:, :n1, None, :] - coords[:, None, n1:, :]
    d -= np.round(d)
    dist = np.linalg.norm(d * 9.0, axis=-1).ravel()
    cnt, _ = np.histogram(dist, bins=bins)
    near = np.any(np.abs(dist[:, None] - bins[None, :]) < 1e-9)
    norm = (n2 / 9.0**3) * (4.0 / 3.0) * math.pi * ((bins[:-1] + reso) ** 3 - bins[:-1] ** 3)
    case = {'large_pair': [T, n1, n2]}
    try:
        r = radial_distribution_between_species(trajectory=traj, specie_1='Li', specie_2='S', max_dist=max_dist, resolution=reso)
        raw = np.asarray(r.y) * norm
        res.evals += T * n1 * n2
        res.outcome(('large', int(raw.sum())))
        if not near and not np.allclose(raw, cnt, atol=1e-6):
            res.violation('rdf-between-species-not-normalised-brute-force-histogram', case, f'{T} frames x {n1} x {n2}: counts {np.round(raw).astype(int).tolist()} brute force {cnt.tolist()}')
    except Exception as e:  # noqa: BLE001
        res.violation(f'rdf-between-species-raise-{type(e).__name__}', case, str(e))
    res.sample({'large_species_pair': {'frames': T, 'atoms': [n1, n2]}})


def shards(tier, seed):
    out = [{'large': True}]
    lats = alphabets.lattices(tier, seed)
    if tier == 'quick':
        lats = [l for l in lats if l[0] in ('cubic6', 'ortho567-axes-permuted', 'tric-pmg-default', 'hex-a5-c7')]
    k = 0
    for lname, M in lats:
        for labels in alphabets.LABELS[3][::-1]:
            for part in range(4):
                out.append({'lat': lname, 'M': M.tolist(), 'labels': list(labels), 'part': part, 'tier': tier, 'param': k % 4, 'fw': k % 3, 'ox': k % 2})
                k += 1
    return out


def traces_for(part, tier):
    syms = [0, 1, 3, 5]
    frames = list(itertools.product(syms, repeat=2))
    out = []
    if part == 0:
        out += [[list(a), list(b)] for a in frames for b in frames]
    if tier == 'thorough':
        fl = frames[part * 4:(part + 1) * 4]
        out += [[list(a), list(b), list(c)] for a in fl for b in frames for c in frames]
        if part == 1:
            out += [[[a, 1], [b, 1], [c, 0], [d, 3]] for a, b, c, d in itertools.product(syms, repeat=4)]
    else:
        for h in itertools.product(syms, repeat=3):
            if syms.index(h[0]) == part:
                for tr in TRACKS1:
                    out.append([[h[0], tr[0]], [h[1], tr[1]], [h[2], tr[2]]])
    return out


def state_name(trace, prev, nxt, labels, t, a):
    s = hop.outer(trace[t][a])
    if s != -1:
        return '@' + labels[s]
    p, n = prev[t][a], nxt[t][a]
    if p == -1 or n == -1:
        return '~>'
    return labels[p] + '->' + labels[n]


def evaluate(trace, M, labels, param, fw, res: Result, ox=0):
    from gemdat.rdf import radial_distribution, radial_distribution_between_species

    M = np.asarray(M)
    case = {'trace': trace, 'M': M.tolist(), 'labels': labels, 'param': param, 'fw': fw, 'ox': ox}
    site_frac = np.array(alphabets.SITESETS['S3'])
    L = len(trace)
    fwk = [FRAME_POS[fw], FRAME_POS[(fw + 1) % 3], (0.8, 0.15, 0.2)]
    try:
        coords = concretise.concretise(trace, M, site_frac, [R_SITE] * 3, 1.0, framework=fwk)
    except concretise.Unrealisable:
        res.stats['unrealisable'] += 1
        return
    # species order deliberately mixed: Li, S, Li, S, P  (concretise gives Li, Li, S, S, P)
    order = [0, 2, 1, 3, 4]
    species = ['Li', 'S', 'Li', 'S', 'P' if ox else 'Si']  # 'Si' contains the symbol 'S'
    coords = coords[:, order, :]
    sp_objs = species
    if ox:
        from pymatgen.core import Species

        # the two S atoms are DIFFERENT species (S2- and S0) sharing one element symbol
        sp_objs = [Species('Li', 1), Species('S', -2), Species('Li', 1), Species('S', 0), Species('P', 5)]
    traj = concretise.make_trajectory(coords, sp_objs, M, time_step=1e-15)
    # the site structure may carry its own cell (e.g. from a CIF): distances are those of the SIMULATION cell
    Ms = M if (param + fw) % 2 == 0 else (M * 1.04) @ geom.rotation((12.0, 31.0, 47.0)).T
    sites = concretise.make_sites(site_frac, labels, Ms)
    if not hop.change_log(trace):
        return
    try:
        tr = traj.transitions_between_sites(sites, 'Li', site_radius=R_SITE)
    except Exception as e:  # noqa: BLE001 (C02/C03 business)
        res.stats['transitions_raise'] += 1
        return
    o, _ = hop.state_arrays(trace)
    real_states = np.asarray(tr.states).tolist()
    # the site states (and everything derived from them) do not depend on the inner fraction
    try:
        tr_in = traj.transitions_between_sites(sites, 'Li', site_radius=R_SITE, site_inner_fraction=0.5)
        if np.asarray(tr_in.states).tolist() != real_states:
            res.violation('site-states-depend-on-the-inner-fraction', case, f'{np.asarray(tr_in.states).tolist()} vs {real_states}')
    except Exception as e:  # noqa: BLE001
        res.stats['inner_fraction_variant_raises'] += 1
    if real_states != o:
        # C02's business; the RDF oracle below is built from the states the real code reports, so that
        # this check does not depend on the site assignment being right
        res.stats['states_differ_from_symbolic_trace'] += 1
    trace = [[0 if s == -1 else 1 + 2 * int(s) for s in row] for row in real_states]
    res.stats['scenarios'] += 1
    max_dist, reso = PARAMS[param]
    bins = np.arange(0, max_dist + reso, reso)
    pos = np.mod(coords, 1)
    li = [0, 2]
    last = species[4]
    sym_idx = {'Li': [0, 2], 'S': [1, 3], last: [4]}
    prev, nxt = hop.prev_next(trace)
    exp = defaultdict(lambda: np.zeros(len(bins), dtype=int))
    tie_bins = set()
    npairs = 0
    for t in range(L):
        D = geom.dist_matrix(pos[t][li], pos[t], M)
        for ai in range(2):
            st = state_name(trace, prev, nxt, labels, t, ai)
            for sym, idxs in sym_idx.items():
                for b in idxs:
                    d = D[ai, b]
                    if d > bins[-1] + 1e-9:
                        continue
                    k = int(np.searchsorted(bins, d, side='left'))  # smallest k with d <= bins[k]
                    if b != li[ai]:  # the atom paired with itself (d = 0) belongs to bin 0 only, it is no edge tie
                        near = np.where(np.abs(bins - d) < 1e-9)[0]
                        for e in near:
                            tie_bins.update({int(e), int(e) + 1})
                    if k < len(bins):
                        exp[st, sym][k] += 1
                        npairs += 1
    res.evals += npairs
    if (param + len(trace)) % 2:
        # an earlier analysis may have left the trajectories in displacement mode
        tr.diff_trajectory.displacements
        tr.trajectory.displacements
    try:
        ret = radial_distribution(transitions=tr, floating_specie='Li', max_dist=max_dist, resolution=reso)
    except Exception as e:  # noqa: BLE001
        res.violation(f'radial-distribution-raise-{type(e).__name__}', case, str(e))
        return
    got = defaultdict(lambda: np.zeros(len(bins), dtype=int))
    for state, coll in ret.items():
        name = '~>' if state.startswith('~>') else state
        for rdf in coll:
            y = np.asarray(rdf.y)
            if len(y) != len(bins) or not np.allclose(np.asarray(rdf.x), bins):
                res.violation('rdf-bins-wrong', case, f'len(y)={len(y)} len(bins)={len(bins)}')
                return
            got[name, rdf.label] = got[name, rdf.label] + y
    mask = np.ones(len(bins), dtype=bool)
    mask[0] = False
    for b in tie_bins:
        if 0 <= b < len(bins):
            mask[b] = False
    res.stats['bins_compared'] += int(mask.sum())
    keys = set(exp) | set(got)
    tot_e = defaultdict(lambda: np.zeros(len(bins), dtype=int))
    tot_g = defaultdict(lambda: np.zeros(len(bins), dtype=int))
    bad_state = None
    for k in keys:
        tot_e[k[1]] = tot_e[k[1]] + exp[k]
        tot_g[k[1]] = tot_g[k[1]] + got[k]
        if bad_state is None and not np.array_equal(exp[k][mask], got[k][mask]):
            bad_state = k
    for sym in tot_e:
        if not np.array_equal(tot_e[sym][mask], tot_g[sym][mask]):
            res.violation('per-state-rdfs-do-not-partition-pair-counts', case, f'symbol {sym}: sum over states {tot_g[sym].tolist()} brute force {tot_e[sym].tolist()}')
            bad_state = None
            break
    if bad_state is not None:
        res.violation('per-state-rdf-counts-in-wrong-state', case, f'state {bad_state}: got {got[bad_state].tolist()} expected {exp[bad_state].tolist()}; states got={sorted(set(k[0] for k in got))} expected={sorted(set(k[0] for k in exp))}')
    res.outcome(hash((tuple(map(tuple, trace)), tuple(labels), param, tuple(sorted((k, v.tobytes()) for k, v in got.items())))))
    # --- species pair distribution
    V = abs(np.linalg.det(M))
    for s1, s2 in (('Li', 'S'), ('S', 'Li'), ('Li', last), ('S', 'S'), (last, 'S')):
        try:
            r = radial_distribution_between_species(trajectory=traj, specie_1=s1, specie_2=s2, max_dist=max_dist, resolution=reso)
        except Exception as e:  # noqa: BLE001
            res.violation(f'rdf-between-species-raise-{type(e).__name__}', case, str(e))
            continue
        i1, i2 = sym_idx[s1], sym_idx[s2]
        cnt = np.zeros(len(bins) - 1)
        tie = np.zeros(len(bins) - 1, dtype=bool)
        selfpairs = 0
        for t in range(L):
            D = geom.dist_matrix(pos[t][i1], pos[t][i2], M)
            for x, a in enumerate(i1):
                for y_, b in enumerate(i2):
                    d = D[x, y_]
                    if a == b:
                        selfpairs += 1
                        continue
                    near = np.where(np.abs(bins - d) < 1e-9)[0]
                    for e in near:
                        for q in (e - 1, e):
                            if 0 <= q < len(tie):
                                tie[q] = True
                    if d > bins[-1]:
                        continue
                    k = min(int(np.searchsorted(bins, d, side='right')) - 1, len(bins) - 2)
                    cnt[k] += 1
        res.evals += L * len(i1) * len(i2)
        norm = (len(i2) / V) * (4.0 / 3.0) * math.pi * ((bins[:-1] + reso) ** 3 - bins[:-1] ** 3)
        y = np.asarray(r.y, dtype=float)
        if len(y) != len(cnt) or not np.allclose(np.asarray(r.x), bins[:-1]):
            res.violation('rdf-between-species-bins-wrong', case, f'{len(y)} vs {len(cnt)}')
            continue
        raw = y * norm
        m = ~tie
        ok = np.allclose(raw[m], cnt[m], atol=1e-6)
        if not ok and selfpairs:
            c2 = cnt.copy()
            c2[0] += selfpairs
            ok = np.allclose(raw[m], c2[m], atol=1e-6)
        if not ok:
            res.violation('rdf-between-species-not-normalised-brute-force-histogram', case, f'{s1}-{s2}: y*shell_norm={np.round(raw, 4).tolist()} brute force={cnt.tolist()}')
        if (s1, s2) == ('Li', 'S'):
            raw_ls, tie_ls = raw, tie
        if (s1, s2) == ('S', 'Li'):
            m2 = ~(tie | tie_ls)
            if not np.allclose(raw[m2], raw_ls[m2], atol=1e-6):
                res.violation('rdf-raw-pair-counts-not-symmetric', case, f'Li-S {np.round(raw_ls, 4).tolist()} vs S-Li {np.round(raw, 4).tolist()}')


def run_shard(shard) -> Result:
    res = Result()
    if shard.get('large'):
        run_large(res)
        res.stats['scenarios'] += 1
        return res
    M = np.array(shard['M'])
    for trace in traces_for(shard['part'], shard['tier']):
        evaluate(trace, M, shard['labels'], shard['param'], shard['fw'], res, shard.get('ox', 0))
    res.sample({'lattice': shard['lat'], 'labels': shard['labels'], 'trace': trace, 'max_dist_resolution': PARAMS[shard['param']]})
    return res


def finalize(total, tier):
    from ..core import HarnessError

    if total.stats['scenarios'] == 0:
        raise HarnessError(f'scenario construction failed too often: {dict(total.stats)}')


def replay(case):
    res = Result()
    if 'large_pair' in case:
        run_large(res)
        return [{'kind': v['kind'], 'detail': v['detail']} for v in res.viols]
    evaluate(case['trace'], np.array(case['M']), case['labels'], case['param'], case['fw'], res, case.get('ox', 0))
    return [{'kind': v['kind'], 'detail': v['detail']} for v in res.viols]
