"""C17 — shape analysis collects exactly the symmetry-equivalent points in the radius.

Engine E1 (input-shape mode): space groups x site coordinates on a grid (incl. near-face sites whose
symmetry images fall outside [0,1)) x radii; input positions = probes on both sides of the radius
around EVERY symmetry image of the site (wrapped into [0,1)) + a background grid; unit cell and
integer supercells (via analyze_trajectory). Oracle: own affine arithmetic on the group's operation
matrices + own minimum image.
"""

from __future__ import annotations

import itertools
from collections import Counter

import numpy as np

from .. import concretise
from ..core import Result
from ..ref import geom

ID = 'C17'
LEVEL = 'exploration'
RULE = (
    'space groups {P1,P-1,P2_1/c,C2/m,Pnma,Cmcm,I4/mmm,P4_2/mnm,R-3m,P6_3/mmc,Pm-3m,Fm-3m,F-43m,Fd-3m,Ia-3d,P2_13} '
    '(quick: 8 of them) with compatible lattices x site grid G^3 (quick G={0.03,0.5,0.97} + generic, thorough '
    'G={0.03,0.1,0.25,0.5,0.9,0.97}) x radii {0.5,1.0,0.45*w_min}; positions: for every symmetry image, 14 directions '
    'x rho in {0.5,0.98,1.02} x radius, wrapped, + 4^3 background grid; a second different site with the same label on the same analyzer; supercells (1,1,1),(2,1,1),(2,2,2),(1,2,3) (analyze_trajectory called twice on the same object, trajectory unchanged); '
    'evaluation = one (operation, position) pair judged; distinct = distinct (group, site, radius, count) outcomes'
    '; per operation 8 probes 4e-9 A inside / outside the sphere (tie zone 1e-10 A)'
)
LEVEL_TEXT = (
    'Bounded-exhaustive over the listed space groups, site grid and radii with probes around every symmetry '
    'image; the number of collected points, their norms and the multiset of points (each the inverse-operation '
    'image of its source) are compared with an independent computation; supercell folding is checked on the same scenarios.'
)
LEVEL_NOTE = 'Trusted: the operation matrices of pymatgen\'s SpaceGroup table (data), own affine arithmetic and gvmc/ref/geom.py. Pairs within 1e-10 A of the radius are a tie zone (count may differ by them).'
TECHNIQUE = 'bounded-exhaustive input-shape enumeration against an independent symmetry/minimum-image computation'
ASSUMPTIONS = ['radius below half the smallest perpendicular width of the cell']

GROUPS = [
    ('P1', (5.13, 6.27, 7.41, 70, 80, 100)), ('P-1', (5.13, 6.27, 7.41, 70, 80, 100)), ('P2_1/c', (5.13, 6.27, 7.41, 90, 105, 90)),
    ('Pnma', (5.13, 6.27, 7.41, 90, 90, 90)), ('I4/mmm', (5.13, 5.13, 7.41, 90, 90, 90)), ('R-3m', (5.13, 5.13, 7.41, 90, 90, 120)),
    ('Pm-3m', (6.27, 6.27, 6.27, 90, 90, 90)), ('Fm-3m', (6.27, 6.27, 6.27, 90, 90, 90)),
    ('C2/m', (5.13, 6.27, 7.41, 90, 105, 90)), ('Cmcm', (5.13, 6.27, 7.41, 90, 90, 90)), ('P4_2/mnm', (5.13, 5.13, 7.41, 90, 90, 90)),
    ('P6_3/mmc', (5.13, 5.13, 7.41, 90, 90, 120)), ('F-43m', (6.27, 6.27, 6.27, 90, 90, 90)), ('Fd-3m', (6.27, 6.27, 6.27, 90, 90, 90)),
    ('Ia-3d', (6.27, 6.27, 6.27, 90, 90, 90)), ('P2_13', (6.27, 6.27, 6.27, 90, 90, 90)),
]
QUICK_GROUPS = 8
DIRS14 = [np.array(v, dtype=float) / np.linalg.norm(v) for v in
          [(1, 0, 0), (-1, 0, 0), (0, 1, 0), (0, -1, 0), (0, 0, 1), (0, 0, -1), (1, 1, 1), (-1, 1, 1), (1, -1, 1), (1, 1, -1), (-1, -1, 1), (-1, 1, -1), (1, -1, -1), (-1, -1, -1)]]
RHOS = [0.5, 0.98, 1.02]
SUPERCELLS = [(1, 1, 1), (2, 1, 1), (2, 2, 2), (1, 2, 3)]
TIE = 1e-10


def site_grid(tier):
    g = [0.03, 0.5, 0.97] if tier == 'quick' else [0.03, 0.1, 0.25, 0.5, 0.9, 0.97]
    pts = list(itertools.product(g, repeat=3))
    pts += [(0.137, 0.291, 0.713), (0.98, 0.02, 0.51)]
    return pts


def run_large(res):
    """An input of 120 011 positions (well above any plausible block size) in P-1."""
    from pymatgen.core import PeriodicSite

    from gemdat.shape import ShapeAnalyzer

    g, lat, ops = group('P-1', (5.13, 6.27, 7.41, 70, 80, 100))
    M = np.array(lat.matrix)
    site = np.array([0.98, 0.02, 0.51])
    n = 120011
    k = np.arange(n)
    positions = np.stack([(k * 0.6180339887) % 1, (k * 0.7548776662) % 1, (k * 0.5698402910) % 1], axis=1)
    radius = 1.0
    exp, ties = expected(site, ops, M, positions, radius)
    case = {'large_positions': n}
    try:
        sa = ShapeAnalyzer(sites=[PeriodicSite('Li', site, lat, label='X')], lattice=lat, spacegroup=g)
        got = np.asarray(sa.analyze_positions(positions.copy(), radius=radius)[0].coords, dtype=float).reshape(-1, 3)
        res.evals += len(ops) * n
        res.outcome(('large', len(got)))
        if ties == 0 and (len(got) != len(exp) or (len(got) and np.max(np.linalg.norm(got, axis=1)) >= radius + 1e-6) or not multiset_equal(got, exp)):
            res.violation('large-input-collected-points-wrong', case, f'{n} positions: got {len(got)} points, expected {len(exp)}; max norm {np.max(np.linalg.norm(got, axis=1)) if len(got) else 0:.3f}')
    except Exception as e:  # noqa: BLE001
        res.violation(f'shape-raise-{type(e).__name__}', case, str(e))
    res.sample({'large_input_positions': n, 'space_group': 'P-1'})


def shards(tier, seed):
    out = [{'large': True}]
    groups = [g for g in GROUPS[:QUICK_GROUPS] if g[0] != 'Fm-3m'] if tier == 'quick' else GROUPS
    for sg, params in groups:
        pts = site_grid(tier)
        nops = {'Fm-3m': 192, 'Fd-3m': 192, 'F-43m': 96, 'Ia-3d': 96, 'Pm-3m': 48, 'R-3m': 36, 'I4/mmm': 32}.get(sg, 16)
        step = max(1, 240 // nops) if tier == 'quick' else max(1, 600 // nops)
        for lo in range(0, len(pts), step):
            out.append({'sg': sg, 'params': list(params), 'lo': lo, 'hi': min(lo + step, len(pts)), 'tier': tier})
    return out


_CACHE = {}


def group(sg, params):
    key = (sg, tuple(params))
    if key not in _CACHE:
        from pymatgen.core import Lattice
        from pymatgen.symmetry.groups import SpaceGroup

        g = SpaceGroup(sg)
        lat = Lattice.from_parameters(*params)
        ops = [np.array(op.affine_matrix, dtype=float) for op in g]
        _CACHE[key] = (g, lat, ops)
    return _CACHE[key]


def apply(A, x):
    x = np.asarray(x, dtype=float)
    return x @ A[:3, :3].T + A[:3, 3]


def build_positions(site, ops, M, radius):
    Minv = np.linalg.inv(M)
    pts = []
    for A in ops:
        img = apply(A, site)
        c = img @ M
        for u in DIRS14:
            for rho in RHOS:
                pts.append((c + rho * radius * u) @ Minv)
        for u in DIRS14[6:10]:
            for eps in (-4e-9, 4e-9):  # just inside / just outside the sphere: 'below the radius' is sharp (tie zone 1e-10 A)
                pts.append((c + (radius + eps) * u) @ Minv)
    bg = [((i + 0.37) / 4, (j + 0.61) / 4, (k + 0.13) / 4) for i in range(4) for j in range(4) for k in range(4)]
    pts = np.array(pts + bg)
    pts = np.mod(pts, 1)
    pts[pts == 1] = 0
    return pts


def expected(site, ops, M, positions, radius):
    """-> (points (K,3) cartesian centred, n_tie)"""
    out = []
    ties = 0
    for A in ops:
        img = apply(A, site)
        # radius < w_min/2: an image closer than the radius has all |fractional components| < 1/2, i.e. it is
        # the component-wise rounded one; so the rounded image decides d < radius exactly (K=0 suffices)
        df = positions - img[None, :]
        dv = (df - np.round(df)) @ M  # cartesian vector image->position
        d = np.linalg.norm(dv, axis=1)
        ties += int(np.sum(np.abs(d - radius) < TIE))
        sel = d < radius
        if not np.any(sel):
            continue
        Minv = np.linalg.inv(M)
        q = img[None, :] + dv[sel] @ Minv  # nearest image of the positions (fractional)
        Ainv = np.linalg.inv(A)
        y = apply(Ainv, q)
        out.append((y - site[None, :]) @ M)
    return (np.vstack(out) if out else np.zeros((0, 3))), ties


def multiset_equal(a, b, tol=1e-6):
    """Equality of two multisets of 3-vectors up to tol. Exact duplicates are collapsed first (unique rows of the
    coordinates rounded to tol/1000, with multiplicities); the representatives of both sides are then clustered by
    proximity (union-find over pairs closer than tol) and every cluster must carry equal total multiplicity."""
    if len(a) != len(b):
        return False
    if len(a) == 0:
        return True
    from scipy.spatial import cKDTree

    ua, ca = np.unique(np.round(np.asarray(a) / (tol / 1000)).astype(np.int64), axis=0, return_counts=True)
    ub, cb = np.unique(np.round(np.asarray(b) / (tol / 1000)).astype(np.int64), axis=0, return_counts=True)
    if ua.shape == ub.shape and np.array_equal(ua, ub) and np.array_equal(ca, cb):
        return True
    reps = np.vstack([ua, ub]).astype(float) * (tol / 1000)
    w = np.concatenate([ca, -cb])
    parent = np.arange(len(reps))

    def find(i):
        while parent[i] != i:
            parent[i] = parent[parent[i]]
            i = parent[i]
        return i

    for i, j in cKDTree(reps).query_pairs(tol):
        ri, rj = find(i), find(j)
        if ri != rj:
            parent[ri] = rj
    bal = Counter()
    for i in range(len(reps)):
        bal[find(i)] += int(w[i])
    return all(v == 0 for v in bal.values())


def eval_site(sg, params, site, radius_spec, supercell, res: Result):
    from pymatgen.core import PeriodicSite

    from gemdat.shape import ShapeAnalyzer

    g, lat, ops = group(sg, params)
    M = np.array(lat.matrix)
    site = np.array(site, dtype=float)
    wmin = min(geom.perpendicular_widths(M))
    radius = radius_spec if radius_spec != 'w' else 0.45 * wmin
    case = {'sg': sg, 'params': list(params), 'site': site.tolist(), 'radius': radius_spec, 'supercell': list(supercell)}
    if radius >= wmin / 2:
        res.stats['skipped_radius_too_large'] += 1
        return
    positions = build_positions(site, ops, M, radius)
    pad = 0
    exp, ties = expected(site, ops, M, positions, radius)
    lat_site = lat
    if int(round(float(site[1] + site[2]) * 100)) % 2 == 0:
        from pymatgen.core import Lattice as _L

        lat_site = _L(M @ geom.rotation((33.0, 21.0, 57.0)).T)  # the same cell in another orientation
    psite = PeriodicSite('Li', site, lat_site, label='X')
    # a second, different site with the SAME label on the same analyzer
    site2 = np.mod(site + np.array([0.21, 0.13, 0.37]), 1.0)
    psite2 = PeriodicSite('Li', site2, lat_site, label='X')
    sa = ShapeAnalyzer(sites=[psite, psite2], lattice=lat, spacegroup=g)
    try:
        if tuple(supercell) == (1, 1, 1):
            shapes = sa.analyze_positions(positions.copy(), radius=radius)
        else:
            sc = np.array(supercell, dtype=float)
            cells = np.array([[(7 * i + 3) % supercell[0], (5 * i + 1) % supercell[1], (3 * i + 2) % supercell[2]] for i in range(len(positions))])
            psuper = (positions + cells) / sc
            N = 3
            T = -(-len(psuper) // N)
            pad = T * N - len(psuper)
            allp = np.vstack([psuper, np.tile(psuper[-1:], (pad, 1))]) if pad else psuper
            if pad:
                # the padded copies are extra input positions: account for them in the oracle
                extra = np.tile(positions[-1:], (pad, 1))
                exp, ties = expected(site, ops, M, np.vstack([positions, extra]), radius)
            traj = concretise.make_trajectory(allp.reshape(T, N, 3), ['Li'] * N, M * sc[:, None])
            before = np.array(traj.positions)
            if int(round(float(site[0] + site[1]) * 100)) % 2 == 0:
                traj.displacements  # an earlier analysis may have left the trajectory in displacement mode
            sa.analyze_trajectory(traj, supercell=tuple(supercell), radius=radius)
            shapes = sa.analyze_trajectory(traj, supercell=tuple(supercell), radius=radius)  # second call, same object
            dpos = np.array(traj.positions) - before
            if np.any(np.abs(dpos - np.round(dpos)) > 1e-9):  # (a displacement round trip may move values by an ulp)
                res.violation('shape-analysis-modifies-the-trajectory', case, 'positions differ after analyze_trajectory')
        got = np.asarray(shapes[0].coords, dtype=float).reshape(-1, 3)
        dists = np.asarray(shapes[0].distances())
    except Exception as e:  # noqa: BLE001
        res.violation(f'shape-raise-{type(e).__name__}', case, str(e))
        return
    res.evals += len(ops) * len(positions)
    res.stats['pairs_in_tie_zone'] += ties
    res.outcome(hash((sg, tuple(site), radius_spec, tuple(supercell), len(got))))
    if ties == 0:
        if len(got) != len(exp):
            res.violation('number-of-collected-points-wrong', case, f'got {len(got)} expected {len(exp)} (ops={len(ops)}, positions={len(positions)})')
    elif not (len(exp) <= len(got) <= len(exp) + ties):
        res.violation('number-of-collected-points-wrong', case, f'got {len(got)} expected {len(exp)}..{len(exp) + ties}')
    if len(got) and np.max(np.linalg.norm(got, axis=1)) >= radius + 1e-6:
        far = np.linalg.norm(got, axis=1)
        res.violation('collected-point-outside-radius', case, f'{int(np.sum(far >= radius + 1e-6))} of {len(got)} points beyond radius {radius:.3f}; max {far.max():.3f}')
    if len(got) and not np.allclose(dists, np.linalg.norm(got, axis=1), atol=1e-12):
        res.violation('distances-not-norm-of-coords', case, '')
    if ties == 0 and len(got) == len(exp) and not multiset_equal(got, exp):
        res.violation('collected-points-not-inverse-images-of-sources', case, f'first got {got[:2].tolist()} first expected {exp[:2].tolist()}')
    # the second site of the same analyzer (same label, other coordinates)
    try:
        allpos = positions if tuple(supercell) == (1, 1, 1) else np.vstack([positions, np.tile(positions[-1:], (pad, 1))]) if pad else positions
        exp2, ties2 = expected(site2, ops, M, allpos, radius)
        got2 = np.asarray(shapes[1].coords, dtype=float).reshape(-1, 3)
        if ties2 == 0 and (len(got2) != len(exp2) or (len(got2) and np.max(np.linalg.norm(got2, axis=1)) >= radius + 1e-6) or not multiset_equal(got2, exp2)):
            res.violation('second-site-with-same-label-wrong', case, f'got {len(got2)} points expected {len(exp2)}; max norm {np.max(np.linalg.norm(got2, axis=1)) if len(got2) else 0:.3f} radius {radius:.3f}')
    except Exception as e:  # noqa: BLE001
        res.violation(f'second-site-raise-{type(e).__name__}', case, str(e))


def run_shard(shard) -> Result:
    res = Result()
    if shard.get('large'):
        run_large(res)
        return res
    pts = site_grid(shard['tier'])
    radii = [1.0, 'w'] if shard['tier'] == 'quick' else [0.5, 1.0, 'w']
    for k in range(shard['lo'], shard['hi']):
        site = pts[k]
        for r in radii:
            eval_site(shard['sg'], shard['params'], site, r, (1, 1, 1), res)
        sc = SUPERCELLS[1 + k % 3]
        eval_site(shard['sg'], shard['params'], site, 1.0, sc, res)
    res.sample({'space_group': shard['sg'], 'lattice_parameters': shard['params'], 'site': list(site), 'radii': radii, 'supercell': list(sc)})
    return res


def replay(case):
    res = Result()
    if 'large_positions' in case:
        run_large(res)
        return [{'kind': v['kind'], 'detail': v['detail']} for v in res.viols]
    eval_site(case['sg'], case['params'], case['site'], case['radius'], tuple(case['supercell']), res)
    return [{'kind': v['kind'], 'detail': v['detail']} for v in res.viols]
