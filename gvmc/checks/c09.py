"""C09 — free energy is -kT ln(probability) and stays finite.

Engine E1 (input-shape mode): every integer density over {0,1,2,7} on the grid shapes (2,2,1),
(1,3,2), (2,2,2) (all 4^n - 1 non-zero assignments) x temperatures is pushed through
Volume.get_free_energy and FreeEnergyVolume.free_energy_graph.
"""

from __future__ import annotations

import itertools
import math

import numpy as np

from ..core import Result

ID = 'C09'
LEVEL = 'exploration'
RULE = (
    'every assignment of counts {0,1,2,7} to the voxels of grids (2,2,1), (1,3,2), (2,2,2) with at least one '
    'non-zero voxel (255 + 4095 + 65535), also scaled by 1/8 and 1/3 (float densities below 1) and as float32, x temperatures {1,77,300,1000,20000} K, C / Fortran / transposed-view memory layouts, queried one after the other on the SAME Volume object (first temperature repeated at the end); graph node sets for thresholds '
    '{default 1e20, 1e7}; evaluation = one (density, temperature); distinct = distinct (density, T) free-energy arrays'
    '; all densities over {0, 1, 3, 1e9, 4e12}^4 on the 2x2x1 grid (int64 and float64, 300 K and 1000 K), probabilities compared relatively (1e-9)'
)
LEVEL_TEXT = (
    'Complete enumeration of all small integer densities over a 4-value count alphabet on three grid '
    'shapes and four temperatures; Boltzmann inversion, normalisation, monotonicity, finiteness and '
    'the graph node set are checked on every one.'
)
LEVEL_NOTE = 'Trusted: k_B = 8.617333262e-5 eV/K typed literally; math.exp/log. rtol 1e-9.'
TECHNIQUE = 'exhaustive enumeration of small density volumes against the defining formula'
ASSUMPTIONS = ['temperatures up to 1000 K: visited voxels then have F < 1e7 eV by many orders of magnitude']

KB_EV = 8.617333262e-5
COUNTS = [0, 1, 2, 7]
SHAPES = [(2, 2, 1), (1, 3, 2), (2, 2, 2)]
TEMPS = [1.0, 77.0, 300.0, 1000.0, 20000.0]  # 20000 K: kT > 1 eV
SCALES = [1, 0.125, 1.0 / 3.0, 'float32', 'fortran', 'transposed-view', 'uint8', 'int16']


def shards(tier, seed):
    out = []
    for shape in SHAPES:
        n = int(np.prod(shape))
        if n <= 6:
            for first in range(4):
                out.append({'shape': list(shape), 'prefix': [first], 'temps': TEMPS, 'graph': True})
        else:
            for pre in itertools.product(range(4), repeat=3):
                out.append({'shape': list(shape), 'prefix': list(pre), 'temps': TEMPS if tier == 'thorough' else [1.0, 300.0, 20000.0], 'graph': pre[0] % 2 == 0 or tier == 'thorough'})
    out.append({'dynamic_range': True})
    return out


WIDE = [0, 1, 3, 10**9, 4 * 10**12]  # a voxel visited once next to voxels visited 1e9 .. 4e12 times


_LAT = None


def lattice():
    global _LAT
    if _LAT is None:
        from pymatgen.core import Lattice

        _LAT = Lattice.from_parameters(4, 5, 6, 80, 95, 100)
    return _LAT


def evaluate(data, T, graph=True, vol=None):
    from gemdat.volume import Volume

    viols = []
    data = np.asarray(data)
    if vol is None:
        vol = Volume(data=data, lattice=lattice())
    try:
        fe = vol.get_free_energy(temperature=T)
    except Exception as e:  # noqa: BLE001
        return [(f'free-energy-raise-{type(e).__name__}', str(e))], ('raise',)
    F = np.asarray(fe.data, dtype=float)
    if F.shape != data.shape:
        return [('free-energy-shape-wrong', f'{F.shape}')], ('shape',)
    if not np.all(np.isfinite(F)):
        viols.append(('free-energy-not-finite', f'F={F.tolist()} data={data.tolist()}'))
        return viols, ('nonfinite',)
    tot = float(np.asarray(data, dtype=float).sum())
    tol = 1e-6 if data.dtype == np.float32 else 1e-9  # a float32 density carries float32 rounding into F
    kT = KB_EV * T
    vis = data > 0
    psum = 0.0
    for idx in np.argwhere(vis):
        idx = tuple(idx)
        p = math.exp(-F[idx] / kT)
        psum += p
        q = float(data[idx]) / tot
        if abs(p - q) > tol or abs(p - q) > (1e-4 if data.dtype == np.float32 else 1e-9) * q:  # absolute and relative: rarely visited voxels count too
            viols.append(('boltzmann-inversion-does-not-recover-probability', f'voxel {idx}: exp(-F/kT)={p} data/total={data[idx] / tot} T={T} data={data.tolist()}'))
            break
    if abs(psum - 1) > tol * max(1, int(vis.sum())):
        viols.append(('probabilities-do-not-sum-to-one', f'sum={psum} T={T} data={data.tolist()}'))
    flatd, flatF = data.ravel(), F.ravel()
    order = np.argsort(flatd)
    for a, b in zip(order[:-1], order[1:]):
        if flatd[a] > 0 and flatd[b] > flatd[a] and flatF[b] > flatF[a] + 1e-15:
            viols.append(('denser-voxel-has-higher-free-energy', f'data={data.tolist()} F={F.tolist()}'))
            break
    for idx in np.argwhere(~vis):
        if not (F[tuple(idx)] >= 1e20):
            viols.append(('unvisited-voxel-energy-not-prohibitive', f'voxel {tuple(idx)} F={F[tuple(idx)]} data={data.tolist()}'))
            break
    if graph:
        exp_nodes = {tuple(int(i) for i in idx) for idx in np.argwhere(vis)}
        F_before = F.copy()
        for thr in ((None, 1e7) if int(data.sum() * 8) % 2 == 0 else (1e7, None)):
            try:
                G = fe.free_energy_graph() if thr is None else fe.free_energy_graph(max_energy_threshold=thr)
                nodes = {tuple(int(i) for i in n) for n in G.nodes}
                if nodes != exp_nodes:
                    viols.append(('graph-nodes-not-visited-voxels', f'thr={thr} nodes={sorted(nodes)} visited={sorted(exp_nodes)} F={F.tolist()}'))
                for n in G.nodes:
                    if abs(G.nodes[n]['energy'] - F[n]) > 0:
                        viols.append(('graph-node-energy-wrong', f'{n}'))
                        break
            except Exception as e:  # noqa: BLE001
                viols.append((f'graph-raise-{type(e).__name__}', str(e)))
        if not np.array_equal(np.asarray(fe.data, dtype=float), F_before):
            viols.append(('graph-building-modifies-the-free-energy', f'data={data.tolist()}'))
    return viols, (data.tobytes(), T, np.round(F, 12).tobytes())


def run_shard(shard) -> Result:
    res = Result()
    if shard.get('dynamic_range'):
        for vals in itertools.product(WIDE, repeat=4):
            if not any(vals):
                continue
            for dt in (np.int64, float):
                data = np.array(vals, dtype=dt).reshape(2, 2, 1)
                for T in (300.0, 1000.0):
                    viols, key = evaluate(data, T, graph=True)
                    res.evals += 1
                    res.outcome(hash(key))
                    for kind, detail in viols:
                        res.violation(kind, {'data': data.tolist(), 'T': T, 'dtype': np.dtype(dt).name}, detail)
        res.stats['wide_dynamic_range_densities'] += 1
        res.sample({'density': [1, 10**9, 0, 4 * 10**12], 'temperature': 300.0})
        return res
    shape = tuple(shard['shape'])
    n = int(np.prod(shape))
    pre = [COUNTS[i] for i in shard['prefix']]
    for rest in itertools.product(COUNTS, repeat=n - len(pre)):
        vals = pre + list(rest)
        if not any(vals):
            continue
        base = np.array(vals).reshape(shape)
        # scale: the same density as integer counts, as counts per frame (floats < 1) and as thirds
        use = SCALES if (n <= 6 or sum(vals) % 3 == 0) else SCALES[:1]
        if n > 6 and len(shard['temps']) <= 3:  # quick tier, 8-voxel grid: a rotating pair of variants instead of all eight
            use = [SCALES[0], SCALES[1 + (sum(vals) // 3) % (len(SCALES) - 1)]] if len(use) > 1 else use
        for scale in use:
            si = SCALES.index(scale)
            if scale == 'fortran':
                data = np.asfortranarray(base.astype(float))
            elif scale in ('uint8', 'int16'):
                data = base.astype(scale)  # small count types: the result must still be computed in double precision
            elif scale == 'transposed-view':
                data = np.ascontiguousarray(base.astype(float).transpose(2, 1, 0)).transpose(2, 1, 0)  # same values, non-C-contiguous view
            else:
                data = base if scale == 1 else (base.astype(np.float32) if scale == 'float32' else base * scale)
            from gemdat.volume import Volume

            vol = Volume(data=data.copy(order='K') if isinstance(scale, str) and scale != 'float32' else data.copy(), lattice=lattice())  # ONE object queried repeatedly (history)
            temps = list(shard['temps']) + [shard['temps'][0]]
            for ti, T in enumerate(temps):
                viols, key = evaluate(data, T, graph=shard['graph'] and T in (1.0, 300.0) and si in (0, 3), vol=vol)
                res.evals += 1
                res.outcome(hash(key))
                for kind, detail in viols:
                    tag = '' if ti == 0 else '-on-repeated-query'
                    res.violation(kind + tag, {'data': data.tolist(), 'T': T, 'temps_before': temps[:ti]}, detail)
            if not np.array_equal(np.asarray(vol.data), data):
                res.violation('free-energy-query-modifies-the-density', {'data': data.tolist(), 'T': temps[0], 'temps_before': temps}, '')
            if si == 0:
                # the density of a Volume is public data: after it is edited, queries must reflect the new content
                data2 = np.array(data, dtype=float)
                data2.flat[0] += 3
                vol.data = data2.copy()
                viols, key = evaluate(data2, temps[0], graph=False, vol=vol)
                res.evals += 1
                for kind, detail in viols:
                    res.violation(kind + '-after-the-density-was-edited', {'data': data.tolist(), 'T': temps[0], 'edited': True}, detail)
    res.sample({'density': data.tolist(), 'temperature': T})
    return res


def replay(case):
    from gemdat.volume import Volume

    data = np.array(case['data'], dtype=case['dtype']) if 'dtype' in case else np.array(case['data'])
    vol = Volume(data=data.copy(), lattice=lattice())
    if case.get('edited'):
        evaluate(data, case['T'], graph=False, vol=vol)
        data = np.array(data, dtype=float)
        data.flat[0] += 3
        vol.data = data.copy()
    for T in case.get('temps_before', []):
        evaluate(data, T, graph=False, vol=vol)
    viols, _ = evaluate(data, case['T'], vol=vol)
    return [{'kind': k, 'detail': d} for k, d in viols]
