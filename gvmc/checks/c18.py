"""C18 — orientation vectors are minimum-image bonds; transforms / autocorrelation exact.

Engine E1 (input-shape mode): tetrahedral centre/satellite clusters (1-2 clusters; centre at a cell
corner / face / interior; 12 cluster orientations; 2 bond lengths; rigid rotation + translation
through the cell faces over <= 4 frames) in every lattice of the (enlarged) lattice alphabet are fed
to the real Orientations; normalise / symmetrise (20 point groups) / transform (6 matrices) /
spherical / autocorrelation (every length 1..40 over a fixed family) are compared with definitions.
"""

from __future__ import annotations

import itertools
import math
from collections import Counter

import numpy as np

from .. import alphabets, concretise
from ..core import Result
from ..ref import geom

ID = 'C18'
LEVEL = 'exploration'
RULE = (
    'clusters: centre positions {corner, face, interior} (1 or 2 clusters) x 12 orientations x bond {1.0,1.5} A x '
    'frames<=4 (rigid rotation + translation crossing faces) x LATTICES scaled by 1.6 (cells >= 8 A) x 3 atom orders (centres first / satellites first / molecule by molecule); vector operations on a triclinic rotated cell, originals unchanged; 2500-frame symmetrize; point groups '
    '{1,-1,2,m,2/m,222,mm2,mmm,4,-4,4/m,422,4mm,-42m,4/mmm,23,m-3,432,-43m,m-3m}; matrices {I, diag, shear, rotation, '
    'singular, integer}; autocorrelation for every T=1..40 x {constant, alternating, rotating, decaying} x 1-3 '
    'particles; evaluation = one vector/array comparison; distinct = distinct observed vector arrays'
    '; all chains of <= 3 operations over {normalize, 3 transforms} x side calls on every intermediate object; autocorrelation also through Orientations.autocorrelation on vectors of varying length'
)
LEVEL_TEXT = (
    'Bounded-exhaustive over the cluster/lattice alphabet (bonds crossing faces and corners in every lattice '
    'orientation), all 20 orthogonal point groups, the matrix alphabet and every trajectory length up to 40; bond '
    'vectors are compared with own minimum-image vectors, group images as multisets, the autocorrelation with its O(T^2) definition.'
)
LEVEL_NOTE = 'Trusted: gvmc/ref/geom.py; rotation matrices of pymatgen\'s PointGroup table (data; orthogonality and closure are verified by the check). Tolerance 1e-9.'
TECHNIQUE = 'bounded-exhaustive input-shape enumeration against definitional oracles (multiset comparison for group images)'
ASSUMPTIONS = ['bond length well below half the smallest cell width; clusters separated by more than 1.5 bond lengths']

POINT_GROUPS = ['1', '-1', '2', 'm', '2/m', '222', 'mm2', 'mmm', '4', '-4', '4/m', '422', '4mm', '-42m', '4/mmm', '23', 'm-3', '432', '-43m', 'm-3m']
TETRA = np.array([(1, 1, 1), (1, -1, -1), (-1, 1, -1), (-1, -1, 1)], dtype=float) / math.sqrt(3)
CENTRES = {'corner': (0.01, 0.01, 0.99), 'face': (0.5, 0.995, 0.5), 'interior': (0.41, 0.3, 0.6)}
MATRICES = {
    'I': np.eye(3), 'diag': np.diag([1.0, 2.0, 3.0]), 'shear': np.array([[1, 0.5, 0], [0, 1, 0.25], [0, 0, 1.0]]),
    'rotation': geom.rotation((20, 50, 80)), 'lower-shear': np.array([[1, 0, 0], [0.5, 1, 0], [0, 0.25, 1.0]]),
    'cell-like-lower-triangular': geom.from_parameters(5, 6, 7, 70, 80, 100), 'upper-with-scale': np.array([[2, 0.5, 0], [0, 3, 0.25], [0, 0, 4.0]]), 'singular': np.array([[1, 2, 3], [2, 4, 6], [0, 1, 1.0]]), 'integer': np.array([[0, 1, 0], [-1, 0, 0], [0, 0, 1.0]]),
}


def orientations12():
    rots = [np.eye(3)]
    for e in [(10, 20, 30), (45, 0, 0), (0, 45, 0), (0, 0, 45), (90, 35, 10), (33, 66, 99), (120, 60, 30), (5, 5, 5), (180, 0, 45), (77, 123, 211), (300, 200, 100)]:
        rots.append(geom.rotation(e))
    return rots


def shards(tier, seed):
    out = []
    lats = alphabets.lattices(tier, seed)
    for lname, M in lats:
        for cset in (['corner'], ['face'], ['interior'], ['corner', 'interior'], ['face', 'corner']):
            out.append({'kind': 'bonds', 'lat': lname, 'M': (M * 1.6).tolist(), 'centres': cset, 'tier': tier})
    for pg in POINT_GROUPS:
        out.append({'kind': 'sym', 'pg': pg})
    out.append({'kind': 'transform'})
    for lo in range(1, 41, 5):
        out.append({'kind': 'autocorr', 'lo': lo, 'hi': lo + 4})
    return out


def atom_order(n, mode):
    """Permutation of the n atoms of the cluster scenario: 0 = as built (Li, centres, satellites, Li),
    1 = satellites before centres, 2 = per-molecule order (centre, its 4 satellites, next centre, ...)."""
    idx = list(range(n))
    nC = (n - 2) // 5
    cen = list(range(1, 1 + nC))
    sat = list(range(1 + nC, 1 + 5 * nC))
    if mode == 1:
        return [0] + sat + cen + [n - 1]
    if mode == 2:
        out = [0]
        for c in range(nC):
            out += [cen[c]] + sat[4 * c: 4 * c + 4]
        return out + [n - 1]
    return idx


def build_cluster_traj(M, centres, R0, bond, T):
    """-> wrapped coords (T, N, 3), species, expected vectors (T, n_cent*4, 3)."""
    M = np.asarray(M)
    Minv = np.linalg.inv(M)
    nC = len(centres)
    species = ['Li'] + ['S'] * nC + ['O'] * (4 * nC) + ['Li']
    N = len(species)
    coords = np.zeros((T, N, 3))
    exp = np.zeros((T, nC * 4, 3))
    for t in range(T):
        Rt = geom.rotation((25.0 * t, 10.0 * t, 40.0 * t)) @ R0
        for c, name in enumerate(centres):
            cen = np.array(CENTRES[name]) @ M + t * np.array([0.35, -0.4, 0.3]) * (1 if c == 0 else -1)
            coords[t, 1 + c] = cen @ Minv
            for k in range(4):
                v = bond * (Rt @ TETRA[k]) * (1.0 if c == 0 else 0.93)
                coords[t, 1 + nC + 4 * c + k] = (cen + v) @ Minv
                exp[t, 4 * c + k] = v
        coords[t, 0] = [0.25, 0.25, 0.25]
        coords[t, -1] = [0.75, 0.7, 0.2]
    w = np.mod(coords, 1)
    w[w == 1] = 0
    return w, species, exp


def eval_bonds(M, centres, oi, bond, T, res: Result):
    from gemdat.orientations import Orientations

    case = {'M': np.asarray(M).tolist(), 'centres': centres, 'orientation': oi, 'bond': bond, 'T': T}
    M = np.asarray(M)
    w, species, exp = build_cluster_traj(M, centres, orientations12()[oi], bond, T)
    # the order of the atoms in the trajectory is free: centres first / satellites first / molecule by molecule
    perm = atom_order(len(species), (oi + T) % 3)
    w_traj = w[:, perm, :]
    traj = concretise.make_trajectory(w_traj, [species[i] for i in perm], M, time_step=1e-15)
    if (oi + T) % 2:
        traj.displacements  # an earlier analysis may have left the trajectory in displacement mode
    res.evals += 1
    try:
        o = Orientations(traj, center_type='S', satellite_type='O')
        vec = np.asarray(o.vectors, dtype=float)
    except Exception as e:  # noqa: BLE001
        res.violation(f'orientations-raise-{type(e).__name__}', case, str(e))
        return
    res.outcome(hash(np.round(vec, 9).tobytes()))
    if vec.shape != exp.shape:
        res.violation('orientation-vectors-shape-wrong', case, f'{vec.shape} vs {exp.shape}')
        return
    # independent oracle: minimum-image vector between the wrapped atoms
    nC = len(centres)
    own = np.zeros_like(exp)
    for c in range(nC):
        for k in range(4):
            own[:, 4 * c + k] = geom.min_image_vec(w[:, 1 + nC + 4 * c + k] - w[:, 1 + c], M)
    if not np.allclose(own, exp, atol=1e-9):
        from ..core import HarnessError

        raise HarnessError('C18 scenario construction inconsistent with own minimum image')
    if not np.allclose(vec, own, atol=1e-9):
        bad = np.argwhere(np.abs(vec - own).max(axis=-1) > 1e-9)[:3].tolist()
        res.violation('orientation-vector-not-minimum-image-bond', case, f'(frame,bond) {bad}: got {vec[tuple(bad[0])].tolist()} own {own[tuple(bad[0])].tolist()}')
    lens = np.linalg.norm(vec, axis=-1)
    if not np.allclose(lens, np.linalg.norm(own, axis=-1), atol=1e-9):
        res.violation('orientation-vector-length-not-periodic-distance', case, f'{lens[0].tolist()}')
    try:
        nrm = np.asarray(o.normalize().vectors)
        if not np.array_equal(np.asarray(o.vectors), vec):
            res.violation('normalize-modifies-the-original-vectors', case, '')
        if not np.allclose(np.linalg.norm(nrm, axis=-1), 1, atol=1e-12) or not np.allclose(nrm * lens[..., None], vec, atol=1e-9):
            res.violation('normalize-not-unit-parallel', case, '')
        sph = np.asarray(o.vectors_spherical)
        az, el, r = np.radians(sph[..., 0]), np.radians(sph[..., 1]), sph[..., 2]
        back = np.stack([r * np.cos(el) * np.cos(az), r * np.cos(el) * np.sin(az), r * np.sin(el)], axis=-1)
        if not np.allclose(back, vec, atol=1e-9):
            res.violation('spherical-representation-not-invertible', case, '')
    except Exception as e:  # noqa: BLE001
        res.violation(f'orientation-derived-raise-{type(e).__name__}', case, str(e))
        return
    try:
        ac = np.asarray(o.normalize().autocorrelation())
        check_autocorr(nrm, ac, res, case)
    except Exception as e:  # noqa: BLE001
        single = T == 1 and isinstance(e, ValueError) and 'FFT data points (0)' in str(e)
        res.violation(f'autocorrelation-raise-{type(e).__name__}' + ('-single-frame' if single else ''), case, str(e))


def own_autocorr(v):
    T, P, _ = v.shape
    out = np.zeros((P, T))
    for k in range(T):
        out[:, k] = np.einsum('tpc,tpc->p', v[: T - k], v[k:]) / (T - k)
    return out / out[:, :1]


def wrong_irfft_autocorr(v):
    """The specific wrong formula of the recorded finding: inverse transform of the length-(2T-1) spectrum
    evaluated at the default length 2T-2."""
    T, P, C = v.shape
    ac = np.zeros((P, T))
    for c in range(C):
        f = np.abs(np.fft.rfft(v[:, :, c], n=2 * T - 1, axis=0)) ** 2
        a = np.fft.irfft(f, axis=0)[:T, :]
        if a.shape[0] < T:
            return None
        ac += a.T / np.arange(T, 0, -1)
    return ac / ac[:, :1]


def check_autocorr(v, got, res: Result, case):
    res.evals += 1
    own = own_autocorr(np.asarray(v, dtype=float))
    got = np.asarray(got, dtype=float)
    if got.shape != own.shape:
        res.violation('autocorrelation-shape-wrong', case, f'{got.shape} vs {own.shape}')
        return
    if np.allclose(got, own, atol=1e-9, equal_nan=True):
        return
    alt = wrong_irfft_autocorr(np.asarray(v, dtype=float))
    if alt is not None and np.allclose(got, alt, atol=1e-9, equal_nan=True):
        res.violation('autocorrelation-irfft-length-2T-2', case, f'T={v.shape[0]}: got {np.round(got[0], 6).tolist()} definition {np.round(own[0], 6).tolist()}')
    else:
        res.violation('autocorrelation-differs-from-definition', case, f'T={v.shape[0]}: got {np.round(got[0], 6).tolist()} definition {np.round(own[0], 6).tolist()}')


def vector_family(kind, T, P):
    v = np.zeros((T, P, 3))
    for t in range(T):
        for p in range(P):
            if kind == 'constant':
                v[t, p] = [1, 2, 2]
            elif kind == 'alternating':
                v[t, p] = [1, 0.5 * (-1) ** t, 0.2 * p + 0.1]
            elif kind == 'rotating':
                a = 0.37 * t * (p + 1)
                v[t, p] = [math.cos(a), math.sin(a), 0.3]
            else:
                v[t, p] = [math.exp(-0.1 * t) + 0.05, 0.3 * math.cos(t + p), 0.2]
    return v


def mk_orient(vectors):
    from gemdat.orientations import Orientations

    # a triclinic, rotated cell: operations on vectors are Cartesian and must not depend on the cell
    M = geom.from_parameters(9, 11, 13, 70, 80, 100) @ geom.rotation((20, 50, 80)).T
    traj = concretise.make_trajectory(np.zeros((1, 2, 3)) + [[0.1, 0.1, 0.1], [0.2, 0.2, 0.2]], ['S', 'O'], M)
    return Orientations(traj, 'S', 'O', in_vectors=np.asarray(vectors, dtype=float))


def run_shard(shard) -> Result:
    res = Result()
    kind = shard['kind']
    if kind == 'bonds':
        M = np.array(shard['M'])
        oris = range(12) if shard['tier'] == 'thorough' else (0, 1, 5, 9)
        for oi, bond, T in itertools.product(oris, (1.0, 1.5), (1, 2, 4)):
            eval_bonds(M, shard['centres'], oi, bond, T, res)
        res.sample({'lattice': shard['lat'], 'centres': shard['centres'], 'orientations': list(oris), 'bonds': [1.0, 1.5], 'frames': [1, 2, 4]})
    elif kind == 'sym':
        from pymatgen.symmetry.groups import PointGroup

        pg = shard['pg']
        R = [np.array(op.rotation_matrix, dtype=float) for op in PointGroup(pg).symmetry_ops]
        case = {'pg': pg}
        keyset = {tuple(np.round(r, 6).ravel()) for r in R}
        closed = all(tuple(np.round(a @ b, 6).ravel()) in keyset for a in R for b in R)
        if not closed or not all(np.allclose(r @ r.T, np.eye(3), atol=1e-9) for r in R):
            from ..core import HarnessError

            raise HarnessError(f'point group {pg}: operation table not an orthogonal group')
        vecs = np.array([[[1.0, 2.0, 3.0], [0.3, -0.2, 0.9], [1, 0, 0], [1, 1, 0], [0.5, 0.5, 0.70710678]], [[-1.0, 0.2, 0.4], [0, 0, 1], [0.1, 0.9, -0.4], [1, 1, 1], [2, -1, 0.5]]])
        o = mk_orient(vecs)
        try:
            out = np.asarray(o.symmetrize(sym_group=pg).vectors)
        except Exception as e:  # noqa: BLE001
            res.violation(f'symmetrize-raise-{type(e).__name__}', case, str(e))
            return res
        if not np.array_equal(np.asarray(o.vectors), vecs):
            res.violation('symmetrize-modifies-the-original-vectors', case, '')
        res.evals += vecs.shape[0] * vecs.shape[1] * len(R)
        res.outcome(hash((pg, np.round(out, 9).tobytes())))
        if out.shape != (2, 5 * len(R), 3):
            res.violation('symmetrize-shape-wrong', case, f'{out.shape}')
        else:
            for t in range(2):
                exp = Counter(tuple(np.round(r @ v, 6) + 0.0) for v in vecs[t] for r in R)
                got = Counter(tuple(np.round(x, 6) + 0.0) for x in out[t])
                if exp != got:
                    res.violation('symmetrize-not-the-group-images', case, f'frame {t}: {sum((exp - got).values())} images missing, {sum((got - exp).values())} spurious')
                    break
        # a long trajectory (more frames than any plausible block size): every frame must be symmetrised
        if pg in ('2/m', '-43m'):
            Tl = 2500
            tt = np.arange(Tl)[:, None]
            big = np.stack([np.stack([np.cos(0.01 * tt[:, 0] + b), np.sin(0.013 * tt[:, 0] + 2 * b), 0.3 + 0.001 * tt[:, 0]], axis=-1) for b in range(2)], axis=1)
            try:
                outb = np.asarray(mk_orient(big).symmetrize(sym_group=pg).vectors)
                res.evals += 40
                for t in list(range(3)) + list(range(2045, 2052)) + list(range(Tl - 5, Tl)) + list(range(97, Tl, 97)):
                    exp = Counter(tuple(np.round(r @ v, 6) + 0.0) for v in big[t] for r in R)
                    got = Counter(tuple(np.round(x, 6) + 0.0) for x in outb[t])
                    if exp != got:
                        res.violation('symmetrize-not-the-group-images', {'pg': pg, 'long': True}, f'long trajectory ({Tl} frames): frame {t} wrong')
                        break
            except Exception as e:  # noqa: BLE001
                res.violation(f'symmetrize-raise-{type(e).__name__}', {'pg': pg, 'long': True}, str(e))
        # explicit operation stack (sym_ops given by the user: stack[:, :, k] applied like the group's)
        res.sample({'point_group': pg, 'n_operations': len(R), 'vectors': vecs[0].tolist()})
    elif kind == 'transform':
        vecs = np.array([[[1.0, 2.0, 3.0], [0.3, -0.2, 0.9]], [[-1.0, 0.2, 0.4], [0, 0, 1]], [[1, 1, 1], [2, -1, 0.5]]])
        for name, A in MATRICES.items():
            o = mk_orient(vecs)
            res.evals += 1
            try:
                out = np.asarray(o.transform(A).vectors)
                own = np.einsum('ij,tbj->tbi', A, vecs)
                res.outcome(hash((name, np.round(out, 9).tobytes())))
                if not np.allclose(out, own, atol=1e-12):
                    res.violation('transform-does-not-apply-matrix', {'matrix': name}, f'{out[0].tolist()} vs {own[0].tolist()}')
                if not np.array_equal(np.asarray(o.vectors), vecs):
                    res.violation('transform-modifies-the-original-vectors', {'matrix': name}, '')
            except Exception as e:  # noqa: BLE001
                res.violation(f'transform-raise-{type(e).__name__}', {'matrix': name}, str(e))
        # chains of operations, with optional side calls on the intermediate objects (an object that has been asked for
        # its normalised form is then transformed, ...): every link must equal the plain numpy model
        OPS = {'N': None, 'Tshear': MATRICES['shear'], 'Trot': MATRICES['rotation'], 'Tscale': MATRICES['upper-with-scale']}
        for depth in (1, 2, 3):
            for chain in itertools.product(OPS, repeat=depth):
                for side in itertools.product((False, True), repeat=depth):
                    o, ref = mk_orient(vecs), vecs.copy()
                    res.evals += 1
                    try:
                        for opn, sd in zip(chain, side):
                            if sd:
                                o.normalize()  # result discarded
                                o.transform(MATRICES['diag'])
                            if opn == 'N':
                                o, ref = o.normalize(), ref / np.linalg.norm(ref, axis=-1, keepdims=True)
                            else:
                                o, ref = o.transform(OPS[opn]), np.einsum('ij,tbj->tbi', OPS[opn], ref)
                        out = np.asarray(o.vectors)
                        res.outcome(hash(('chain', chain, np.round(out, 9).tobytes())))
                        if out.shape != ref.shape or not np.allclose(out, ref, atol=1e-12):
                            res.violation('operation-chain-differs-from-model', {'chain': list(chain), 'side_calls': list(side)}, f'chain {chain} side calls {side}: got {np.round(out[0], 6).tolist()} expected {np.round(ref[0], 6).tolist()}')
                    except Exception as e:  # noqa: BLE001
                        res.violation(f'operation-chain-raise-{type(e).__name__}', {'chain': list(chain), 'side_calls': list(side)}, str(e))
        from gemdat.utils import cartesian_to_spherical

        g = np.array([[[x, y, z] for x, y, z in itertools.product((-1.0, 0.0, 0.5, 2.0), repeat=3) if (x, y, z) != (0, 0, 0)]])
        for deg in (True, False):
            sph = np.asarray(cartesian_to_spherical(g, degrees=deg))
            az, el, r = (np.radians(sph[..., 0]), np.radians(sph[..., 1]), sph[..., 2]) if deg else (sph[..., 0], sph[..., 1], sph[..., 2])
            back = np.stack([r * np.cos(el) * np.cos(az), r * np.cos(el) * np.sin(az), r * np.sin(el)], axis=-1)
            res.evals += g.shape[1]
            if not np.allclose(back, g, atol=1e-9):
                res.violation('spherical-representation-not-invertible', {'degrees': deg}, '')
        res.sample({'matrices': list(MATRICES), 'spherical_grid': '{-1,0,0.5,2}^3 minus origin'})
    else:
        from gemdat.utils import fft_autocorrelation

        for T in range(shard['lo'], shard['hi'] + 1):
            for fam in ('constant', 'alternating', 'rotating', 'decaying'):
                for P in (1, 2, 3):
                    v = vector_family(fam, T, P)
                    case = {'family': fam, 'T': T, 'P': P}
                    try:
                        got = fft_autocorrelation(v)
                        res.outcome(hash((fam, T, P, np.round(np.nan_to_num(np.asarray(got)), 9).tobytes())))
                    except Exception as e:  # noqa: BLE001
                        res.evals += 1
                        single = T == 1 and isinstance(e, ValueError) and 'FFT data points (0)' in str(e)
                        res.violation(f'autocorrelation-raise-{type(e).__name__}' + ('-single-frame' if single else ''), case, str(e))
                        continue
                    check_autocorr(v, got, res, case)
                    if P == 2 and T >= 2:
                        # the same through the Orientations object (vectors as they are: lengths vary in time)
                        try:
                            got_m = mk_orient(v).autocorrelation()
                            check_autocorr(v, got_m, res, dict(case, through='Orientations.autocorrelation'))
                        except Exception as e:  # noqa: BLE001
                            res.violation(f'autocorrelation-raise-{type(e).__name__}', dict(case, through='Orientations.autocorrelation'), str(e))
        res.sample({'autocorrelation_lengths': [shard['lo'], shard['hi']], 'families': ['constant', 'alternating', 'rotating', 'decaying'], 'particles': [1, 2, 3]})
    return res


def replay(case):
    res = Result()
    if 'centres' in case:
        eval_bonds(np.array(case['M']), case['centres'], case['orientation'], case['bond'], case['T'], res)
    elif 'family' in case:
        from gemdat.utils import fft_autocorrelation

        v = vector_family(case['family'], case['T'], case['P'])
        try:
            check_autocorr(v, mk_orient(v).autocorrelation() if case.get('through') else fft_autocorrelation(v), res, case)
        except Exception as e:  # noqa: BLE001
            single = case['T'] == 1 and isinstance(e, ValueError) and 'FFT data points (0)' in str(e)
            res.violation(f'autocorrelation-raise-{type(e).__name__}' + ('-single-frame' if single else ''), case, str(e))
    elif 'pg' in case:
        return [{'kind': v['kind'], 'detail': v['detail']} for v in run_shard({'kind': 'sym', 'pg': case['pg']}).viols]
    else:
        return [{'kind': v['kind'], 'detail': v['detail']} for v in run_shard({'kind': 'transform'}).viols]
    return [{'kind': v['kind'], 'detail': v['detail']} for v in res.viols]
