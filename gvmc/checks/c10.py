"""C10 — optimal and percolating paths are valid, correctly reported and cost-minimal.

Engine E1 (input-shape mode): every energy assignment over {low, high, blocked} on every grid shape
with <= 6 voxels and sides in {1,2,3}, plus structured families (uniform, one-gap walls, 3-level
pattern) on larger grids with unequal axes; every ordered (start, stop) pair of admissible voxels,
all five methods, both neighbourhood modes; percolation for all 7 direction sets with every subset
of <= 2 admissible voxels as peaks. Oracle: own Dijkstra / bottleneck search on the periodic grid
(gvmc.ref.pathref, 26 resp. 6 offsets from itertools.product); costs are compared, not paths.
"""

from __future__ import annotations

import itertools

import numpy as np

from ..core import Result
from ..ref import pathref

ID = 'C10'
LEVEL = 'exploration'
RULE = (
    'grids: all shapes with sides in {1,2,3} and <= 6 voxels x all assignments of {0.05, 0.8, blocked} '
    '(quick: <= 4 voxels full, 5-6 voxels {0.05, blocked}); families on (3,3,3),(2,3,4),(3,4,5),(4,3,2): uniform, '
    '3-level pattern, wall with one gap for every wall plane/gap; x diagonal in {True, False} x all ordered '
    '(start, stop) admissible pairs x methods {dijkstra, bellman-ford, dijkstra-exp, simple, minmax-energy}; '
    'one volume object serves both neighbourhood modes; C / Fortran / transposed-view memory layouts; long-axis walls separating the sum criteria from minmax-energy; percolation: 7 direction sets x all peak subsets of size <= 2 and all orders of 3 peaks; path.sites re-read after the wrapped/fractional accessors; evaluation = one path query; distinct = '
    'distinct (grid, mode, start, stop, method, cost) outcomes'
    '; a quarter of the (start, stop, method) requests also through optimal_n_paths(n_paths=2); for a quarter of the small grids and all family grids a graph with a lower threshold is requested from the same volume first'
)
LEVEL_TEXT = (
    'Bounded-exhaustive over all small periodic grids of the alphabet and structured larger ones; every '
    'path returned by the real code is validated step by step (neighbourhood incl. corner moves, '
    'admissibility, reported energies) and its cost under the selected criterion is compared with an '
    'independent optimum; percolating paths are checked against an own search on the tiled periodic grid '
    'and their wrapped/fractional coordinates against the grid bounds per axis.'
)
LEVEL_NOTE = 'Trusted: gvmc/ref/pathref.py (pure-Python Dijkstra and bottleneck search). Cost reading: additive criteria are sums of mean endpoint energies (resp. capped exponentials, hop counts) over the steps; minmax-energy = maximum voxel energy on the path; "cheapest over peaks" accepts the minimum under either the step-sum or the voxel-sum.'
TECHNIQUE = 'bounded-exhaustive enumeration of small periodic grids against an independent shortest-path model (costs compared)'
ASSUMPTIONS = ['start, stop and peaks are admissible voxels', 'energy threshold 1e7 as used by FreeEnergyVolume.optimal_path']

LOW, HIGH, BLOCKED = 0.05, 0.8, 1e9
THR = 1e7
METHODS = ['dijkstra', 'bellman-ford', 'dijkstra-exp', 'simple', 'minmax-energy']
CRIT = {'dijkstra': 'sum', 'bellman-ford': 'sum', 'dijkstra-exp': 'exp', 'simple': 'hops'}
DIRSETS = ['x', 'y', 'z', 'xy', 'xz', 'yz', 'xyz']


def small_shapes(maxvox):
    return [s for s in itertools.product((1, 2, 3), repeat=3) if np.prod(s) <= maxvox]


def shards(tier, seed):
    out = []
    full = 4 if tier == 'quick' else 6
    for shape in small_shapes(6):
        n = int(np.prod(shape))
        alpha = [LOW, HIGH, BLOCKED] if n <= full else [LOW, BLOCKED]
        if n <= 4:
            out.append({'kind': 'small', 'shape': list(shape), 'alpha': alpha, 'prefix': []})
        else:
            for pre in itertools.product(range(len(alpha)), repeat=2):
                out.append({'kind': 'small', 'shape': list(shape), 'alpha': alpha, 'prefix': list(pre)})
    fams = [(3, 3, 3), (2, 3, 4), (4, 3, 2)] + ([(3, 4, 5), (5, 3, 4)] if tier == 'thorough' else [])
    for shape in fams:
        out.append({'kind': 'family', 'shape': list(shape), 'fam': 'uniform'})
        out.append({'kind': 'family', 'shape': list(shape), 'fam': 'pattern'})
        for axis in range(3):
            out.append({'kind': 'family', 'shape': list(shape), 'fam': 'wall', 'axis': axis})
    # long-axis walls with mid-level background: the step-sum optimum crosses the high gap while the
    # bottleneck optimum goes the long way round (separates the sum criteria from minmax-energy)
    for shape, axis in [((5, 1, 2), 0), ((5, 2, 2), 0), ((2, 5, 1), 1), ((1, 2, 6), 2)]:
        out.append({'kind': 'family', 'shape': list(shape), 'fam': 'wall', 'axis': axis, 'low': 0.45})
    for shape in small_shapes(6 if tier == 'thorough' else 4) + [(2, 3, 1), (1, 3, 2), (3, 2, 1)]:
        for ds in DIRSETS:
            out.append({'kind': 'perc', 'shape': list(shape), 'dirs': ds, 'tier': tier})
    out.append({'kind': 'perc-family', 'tier': tier})
    # de-duplicate (the extra perc shapes may repeat)
    seen, uniq = set(), []
    for s in out:
        k = repr(sorted(s.items()))
        if k not in seen:
            seen.add(k)
            uniq.append(s)
    return uniq


_LATS = {}


def fev_of(F):
    from pymatgen.core import Lattice

    from gemdat.volume import FreeEnergyVolume

    if 'l' not in _LATS:
        _LATS['l'] = Lattice.from_parameters(4, 5, 6, 85, 95, 100)
    return FreeEnergyVolume(data=np.asarray(F, dtype=float), lattice=_LATS['l'])  # np.asarray keeps the memory layout


def validate_path(path, E, shape, offs, start, stop, tag):
    viols = []
    sites = [tuple(int(x) for x in s) for s in path.sites]
    if not sites or sites[0] != tuple(start) or sites[-1] != tuple(stop):
        viols.append((f'{tag}path-endpoints-wrong', f'sites={sites} start={start} stop={stop}'))
        return viols, sites
    for u, v in zip(sites, sites[1:]):
        if v not in E or u not in E:
            viols.append((f'{tag}path-through-inadmissible-voxel', f'step {u}->{v} sites={sites}'))
            return viols, sites
        if not pathref.is_neighbour(u, v, shape, offs):
            viols.append((f'{tag}path-step-not-between-neighbours', f'step {u}->{v} shape={shape} sites={sites}'))
            return viols, sites
    en = [float(e) for e in path.energy]
    if len(en) != len(sites) or any(abs(e - E[s]) > 0 for e, s in zip(en, sites)):
        viols.append((f'{tag}path-energy-not-voxel-energy', f'energy={en} expected={[E[s] for s in sites]}'))
    if abs(float(path.total_energy) - sum(en)) > 1e-12 * max(1, abs(sum(en))):
        viols.append((f'{tag}total-energy-not-sum', f'{path.total_energy} vs {sum(en)}'))
    return viols, sites


def check_wrapped(path, shape, sites, tag):
    viols = []
    try:
        w = [tuple(int(x) for x in s) for s in path.wrapped_sites()]
        fr = np.asarray(path.frac_sites(), dtype=float)
    except Exception as e:  # noqa: BLE001
        return [(f'{tag}wrapped-sites-raise-{type(e).__name__}', str(e))]
    if [tuple(int(x) for x in s) for s in path.sites] != list(sites):
        viols.append((f'{tag}wrapped-or-fractional-accessor-modifies-the-path', f'sites now {list(path.sites)[:4]}... were {list(sites)[:4]}...'))
    for s, ws in zip(sites, w):
        if any(not (0 <= c < d) for c, d in zip(ws, shape)) or any((a - b) % d for a, b, d in zip(s, ws, shape)):
            viols.append((f'{tag}wrapped-site-outside-grid-or-not-congruent', f'site={s} wrapped={ws} dims={shape}'))
            break
    if np.any(fr < 0) or np.any(fr >= 1):
        viols.append((f'{tag}frac-site-outside-unit-cell', f'{fr.tolist()} dims={shape}'))
    else:
        own = (np.array([[c % d for c, d in zip(s, shape)] for s in sites]) + 0.5) / np.array(shape)
        if fr.shape != own.shape or not np.allclose(fr, own, atol=1e-12):
            viols.append((f'{tag}frac-site-not-voxel-centre', f'got={fr.tolist()} own={own.tolist()}'))
    return viols


def eval_grid(F, diagonal, res: Result, methods=METHODS, pairs=None, fev=None, pre_low=False):
    import networkx as nx

    from gemdat.path import optimal_path

    F = np.asarray(F, dtype=float)
    shape = F.shape
    case0 = {'F': F.tolist(), 'diagonal': diagonal, 'same_object_before': fev is not None}
    offs = pathref.offsets(diagonal)
    E = pathref.admissible(F, THR)
    if fev is None:
        fev = fev_of(F.copy())
    if pre_low:
        # history: a graph with a LOWER threshold was requested from the same volume first
        case0['pre_low'] = True
        adm = [v for v in F.ravel() if v < THR]
        try:
            fev.free_energy_graph(max_energy_threshold=(min(adm) + max(adm)) / 2 if max(adm) > min(adm) else min(adm) + 1.0, diagonal=diagonal)
        except Exception as e:  # noqa: BLE001
            res.violation(f'graph-raise-{type(e).__name__}', case0, f'lower threshold: {e}')
    try:
        G = fev.free_energy_graph(max_energy_threshold=THR, diagonal=diagonal)
    except Exception as e:  # noqa: BLE001
        res.violation(f'graph-raise-{type(e).__name__}', case0, str(e))
        return
    if {tuple(int(i) for i in n) for n in G.nodes} != set(E):
        res.violation('graph-nodes-not-admissible-voxels', case0, f'nodes={sorted(G.nodes)} admissible={sorted(E)}')
        return
    # edges: exactly the neighbour pairs of admissible voxels, weight = mean of endpoint energies
    own_edges = set()
    for u in E:
        for v in pathref.neighbours(u, shape, offs):
            if v in E and v != u:
                own_edges.add(frozenset((u, v)))
    got_edges = {frozenset((tuple(map(int, a)), tuple(map(int, b)))) for a, b in G.edges if tuple(a) != tuple(b)}
    if got_edges != own_edges:
        miss = sorted(tuple(sorted(e)) for e in own_edges - got_edges)[:3]
        extra = sorted(tuple(sorted(e)) for e in got_edges - own_edges)[:3]
        if miss:
            res.violation('graph-missing-neighbour-edge', case0, f'shape={shape} e.g. missing {miss}')
        if extra:
            res.violation('graph-edge-between-non-neighbours', case0, f'shape={shape} e.g. extra {extra}')
    for a, b, dat in G.edges(data=True):
        a, b = tuple(map(int, a)), tuple(map(int, b))
        if a != b and abs(dat['weight'] - 0.5 * (E[a] + E[b])) > 1e-12:
            res.violation('graph-edge-weight-not-mean-of-endpoints', case0, f'edge {a}-{b} weight={dat["weight"]}')
            break
        own_exp = pathref.edge_cost(E, a, b, 'exp', THR) if a != b else None
        if a != b and abs(dat['weight_exp'] - own_exp) > 1e-9 * max(1.0, own_exp):
            res.violation('graph-exponential-weight-not-capped-exp-of-mean', case0, f'edge {a}-{b} weight_exp={dat["weight_exp"]} expected {own_exp}')
            break
    nodes = sorted(E)
    if pairs is None:
        pairs = [(s, t) for s in nodes for t in nodes]
    own = {}
    for s in {p[0] for p in pairs}:
        own[s] = {c: pathref.dijkstra(E, shape, offs, s, c, THR) for c in ('sum', 'exp', 'hops')}
        own[s]['bottleneck'] = pathref.bottleneck(E, shape, offs, s)
    for (s, t) in pairs:
        for method in methods:
            case = {'F': F.tolist(), 'diagonal': diagonal, 'start': list(s), 'stop': list(t), 'method': method, 'same_object_before': case0['same_object_before'], 'pre_low': pre_low}
            res.evals += 1
            reach = t in own[s]['sum']
            try:
                path = fev.optimal_path(G, start=s, stop=t, method=method)
            except nx.NetworkXNoPath:
                res.outcome(hash((F.tobytes(), diagonal, s, t, method, 'nopath')))
                if reach:
                    res.violation('no-path-although-admissible-path-exists', case, f'own cost {own[s]["sum"][t]}')
                continue
            except Exception as e:  # noqa: BLE001
                res.violation(f'optimal-path-raise-{type(e).__name__}', case, str(e))
                continue
            viols, sites = validate_path(path, E, shape, offs, s, t, '')
            if not viols:
                viols += check_wrapped(path, shape, sites, '')
                if method == 'minmax-energy':
                    got = max(E[x] for x in sites)
                    opt = own[s]['bottleneck'][t]
                    if got > opt + 1e-12:
                        sum_cost = pathref.path_cost(E, sites, 'sum', THR)
                        if abs(sum_cost - own[s]['sum'][t]) <= 1e-9 * max(1, abs(sum_cost)):
                            viols.append(('minmax-energy-returns-sum-optimal-path', f'max energy on path {got} > achievable {opt}; path is the dijkstra (sum) optimum: {sites}'))
                        else:
                            viols.append(('minmax-energy-path-not-bottleneck-optimal', f'max energy {got} > achievable {opt}: {sites}'))
                    res.outcome(hash((F.tobytes(), diagonal, s, t, method, round(got, 9))))
                else:
                    c = CRIT[method]
                    got = pathref.path_cost(E, sites, c, THR)
                    opt = own[s][c][t]
                    if got > opt + 1e-9 * max(1.0, abs(opt)):
                        viols.append(('path-not-cost-minimal', f'method={method} cost={got} optimum={opt} path={sites}'))
                    res.outcome(hash((F.tobytes(), diagonal, s, t, method, round(got, 9))))
            for kind, detail in viols:
                res.violation(kind, case, detail)
            # the same request through the n-best interface: every returned path is a valid path and the first one is
            # optimal under the selected criterion
            if method != 'minmax-energy' and s != t and (s[0] + 2 * s[1] + 3 * s[2] + 5 * t[0] + 7 * t[1] + 11 * t[2]) % 4 == 0:
                from gemdat.path import optimal_n_paths

                res.evals += 1
                try:
                    plist = optimal_n_paths(G, start=s, stop=t, method=method, n_paths=2, min_diff=0.0)
                except nx.NetworkXNoPath:
                    plist = []
                except Exception as e:  # noqa: BLE001
                    res.violation(f'optimal-n-paths-raise-{type(e).__name__}', case, str(e))
                    continue
                for pi, pth in enumerate(plist):
                    pv, psites = validate_path(pth, E, shape, offs, s, t, '')
                    for kind, detail in pv:
                        res.violation('n-paths-' + kind, case, f'path {pi}: {detail}')
                    if not pv and pi == 0:
                        c = CRIT[method]
                        got = pathref.path_cost(E, psites, c, THR)
                        if got > own[s][c][t] + 1e-9 * max(1.0, abs(own[s][c][t])):
                            res.violation('n-paths-first-path-not-cost-minimal', case, f'method={method} cost={got} optimum={own[s][c][t]} path={psites}')


def eval_percolation(F, dirs, peaks, res: Result):
    F = np.asarray(F, dtype=float)
    shape = F.shape
    perc = np.array([d in dirs for d in 'xyz'])
    case = {'F': F.tolist(), 'dirs': dirs, 'peaks': [list(p) for p in peaks]}
    res.evals += 1
    tiled = np.tile(F, tuple(1 + perc))
    tshape = tiled.shape
    Et = pathref.admissible(tiled, THR)
    offs = pathref.offsets(True)
    costs = {}
    for p in peaks:
        stop = tuple(int(a + b) for a, b in zip(p, np.array(shape) * perc))
        d = pathref.dijkstra(Et, tshape, offs, tuple(p), 'sum', THR)
        if stop in d:
            costs[tuple(p)] = d[stop]
    fev = fev_of(F)
    try:
        path = fev.optimal_percolating_path(peaks=np.array(peaks, dtype=int).reshape(-1, 3), percolate=dirs)
    except Exception as e:  # noqa: BLE001
        res.violation(f'percolating-path-raise-{type(e).__name__}', case, str(e))
        return
    if path is None:
        res.outcome(hash((F.tobytes(), dirs, tuple(peaks), 'none')))
        if costs:
            res.violation('no-percolating-path-although-one-exists', case, f'own costs {costs}')
        return
    if not costs:
        res.violation('percolating-path-reported-although-none-exists', case, f'{path.sites}')
        return
    start = tuple(int(x) for x in path.sites[0])
    if start not in [tuple(p) for p in peaks]:
        res.violation('percolating-path-does-not-start-at-a-peak', case, f'{path.sites}')
        return
    stop = tuple(int(a + b) for a, b in zip(start, np.array(shape) * perc))
    viols, sites = validate_path(path, Et, tshape, offs, start, stop, 'percolating-')
    if not viols:
        edge_sum = pathref.path_cost(Et, sites, 'sum', THR)
        if start not in costs or edge_sum > costs[start] + 1e-9 * max(1, abs(edge_sum)):
            viols.append(('percolating-path-not-cheapest-for-its-peak', f'cost={edge_sum} optimum={costs.get(start)} sites={sites}'))
        node_sum = sum(Et[s] for s in sites)
        best_edge = min(costs.values())
        best_node = min(c + Et[p] for p, c in costs.items())
        tol = 1e-9 * max(1.0, abs(node_sum))
        if edge_sum > best_edge + tol and node_sum > best_node + tol:
            viols.append(('percolating-path-not-cheapest-over-peaks', f'start={start} step-sum={edge_sum} (best {best_edge}) voxel-sum={node_sum} (best {best_node})'))
        viols += check_wrapped(path, shape, sites, 'percolating-')
        res.outcome(hash((F.tobytes(), dirs, tuple(peaks), round(edge_sum, 9))))
    for kind, detail in viols:
        res.violation(kind, case, detail)


def family_grids(shard):
    shape = tuple(shard['shape'])
    fam = shard['fam']
    if fam == 'uniform':
        yield np.full(shape, LOW)
        # a wall whose energy is EXACTLY the threshold (not admissible: the node test is F < threshold)
        Fw = np.full(shape, LOW)
        Fw[shape[0] // 2] = THR
        yield Fw
    elif fam == 'pattern':
        F = np.zeros(shape)
        for idx in np.ndindex(shape):
            F[idx] = [LOW, 0.3, HIGH][(idx[0] + 2 * idx[1] + 3 * idx[2]) % 3]
        yield F
        # energies whose exponential exceeds the threshold (exp(18) > 1e7): the capped weight of dijkstra-exp matters
        if int(np.prod(shape)) > 27:
            return
        Fh = np.zeros(shape)
        for idx in np.ndindex(shape):
            Fh[idx] = [LOW, 12.0, 18.0, 30.0][(idx[0] + 2 * idx[1] + 3 * idx[2]) % 4]
        yield Fh
        F2 = F.copy()
        F2[tuple(0 for _ in shape)] = BLOCKED
        yield F2
    else:
        axis = shard['axis']
        other = [a for a in range(3) if a != axis]
        for plane in range(shape[axis]):
            for gap in itertools.product(range(shape[other[0]]), range(shape[other[1]])):
                F = np.full(shape, shard.get('low', LOW))
                sl = [slice(None)] * 3
                sl[axis] = plane
                F[tuple(sl)] = BLOCKED
                g = [0, 0, 0]
                g[axis] = plane
                g[other[0]], g[other[1]] = gap
                F[tuple(g)] = HIGH
                yield F


def run_shard(shard) -> Result:
    res = Result()
    kind = shard['kind']
    if kind == 'small':
        shape = tuple(shard['shape'])
        n = int(np.prod(shape))
        alpha = shard['alpha']
        pre = [alpha[i] for i in shard['prefix']]
        for gi, rest in enumerate(itertools.product(alpha, repeat=n - len(pre))):
            F = np.array(pre + list(rest)).reshape(shape)
            if not np.any(F < THR):
                continue
            # memory layout of the grid: C order, Fortran order, or a transposed view (same values)
            Fl = F if gi % 3 == 0 else (np.asfortranarray(F) if gi % 3 == 1 else np.ascontiguousarray(F.transpose(2, 1, 0)).transpose(2, 1, 0))
            fev = fev_of(np.array(Fl, dtype=float, copy=True, order='K'))  # ONE volume object (own memory) serves both neighbourhood modes (order alternates)
            for diagonal in ((True, False) if gi % 2 == 0 else (False, True)):
                eval_grid(F, diagonal, res, fev=fev, pre_low=(gi % 4 == 1))
        res.sample({'grid_shape': shape, 'energies': F.tolist(), 'pairs': 'all admissible ordered pairs', 'methods': METHODS})
    elif kind == 'family':
        for F in family_grids(shard):
            nodes = sorted(pathref.admissible(F, THR))
            if len(nodes) > 30:
                # all targets from 4 spread sources (incl. the corner), every target
                srcs = [nodes[0], nodes[len(nodes) // 3], nodes[len(nodes) // 2], nodes[-1]]
                pairs = [(s, t) for s in srcs for t in nodes]
            else:
                pairs = None
            fev = fev_of(np.array(F, dtype=float, copy=True))
            for diagonal in (True, False):
                eval_grid(F, diagonal, res, pairs=pairs, fev=fev, pre_low=True)
        res.sample({'family': shard['fam'], 'grid_shape': shard['shape']})
    elif kind == 'perc':
        shape = tuple(shard['shape'])
        n = int(np.prod(shape))
        alpha = [LOW, HIGH, BLOCKED] if (n <= 4 or shard['tier'] == 'thorough') else [LOW, BLOCKED]
        for vals in itertools.product(alpha, repeat=n):
            F = np.array(vals).reshape(shape)
            nodes = sorted(pathref.admissible(F, THR))
            if not nodes:
                continue
            subsets = [(p,) for p in nodes] + list(itertools.combinations(nodes, 2))
            if n > 4 and shard['tier'] == 'quick':
                subsets = subsets[:6]
            # the order in which peaks are supplied must not matter: every ORDER of every 3 peaks
            if len(nodes) >= 3 and (n <= 4 or shard['tier'] == 'thorough'):
                subsets += list(itertools.permutations(nodes[:3], 3)) if shard['tier'] == 'quick' else list(itertools.permutations(nodes[:4], 3))
            for peaks in subsets:
                eval_percolation(F, shard['dirs'], list(peaks), res)
        res.sample({'percolation_shape': shape, 'directions': shard['dirs']})
    else:  # percolation on larger structured grids
        for shape in [(2, 3, 4), (3, 3, 3)]:
            for fs in ({'shape': list(shape), 'fam': 'pattern'}, {'shape': list(shape), 'fam': 'wall', 'axis': 0}, {'shape': list(shape), 'fam': 'wall', 'axis': 2}):
                for k, F in enumerate(family_grids(fs)):
                    if k > (3 if shard['tier'] == 'quick' else 40):
                        break
                    nodes = sorted(pathref.admissible(F, THR))
                    for ds in DIRSETS:
                        eval_percolation(F, ds, [nodes[0]], res)
                        eval_percolation(F, ds, [nodes[-1], nodes[len(nodes) // 2]], res)
                        trip = [nodes[0], nodes[len(nodes) // 3], nodes[-2]]
                        for perm in itertools.permutations(trip):
                            eval_percolation(F, ds, list(perm), res)
        res.sample({'percolation_family_shapes': [(2, 3, 4), (3, 3, 3)]})
    res.stats[f'queries_{kind}'] += res.evals
    return res


def replay(case):
    res = Result()
    if 'dirs' in case:
        eval_percolation(np.array(case['F']), case['dirs'], [tuple(p) for p in case['peaks']], res)
    else:
        F = np.array(case['F'], dtype=float)
        fev = fev_of(F.copy())
        pl = bool(case.get('pre_low', False))
        if case.get('same_object_before', True):
            try:  # the other neighbourhood mode was asked of the same object first
                fev.free_energy_graph(max_energy_threshold=THR, diagonal=not case['diagonal'])
                fev.optimal_path(start=sorted(pathref.admissible(F, THR))[0], stop=sorted(pathref.admissible(F, THR))[0])
            except Exception:  # noqa: BLE001
                pass
        if 'start' in case:
            eval_grid(F, case['diagonal'], res, methods=[case['method']], pairs=[(tuple(case['start']), tuple(case['stop']))], fev=fev, pre_low=pl)
        else:
            eval_grid(F, case['diagonal'], res, fev=fev, pre_low=pl)
    return [{'kind': v['kind'], 'detail': v['detail']} for v in res.viols]
