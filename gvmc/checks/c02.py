"""C02 — site assignment follows the true minimum-image distance for every cell and radius.

Engine E1 (input-shape mode, end-to-end): probe clouds around every site (all directions of a
table x radial factors on both sides of the inner and outer radius) are laid out as real
trajectories and pushed through `Trajectory.transitions_between_sites`; states are compared with
an independent brute-force minimum-image oracle (gvmc.ref.geom).
"""

from __future__ import annotations

import itertools

import numpy as np

from .. import alphabets, concretise
from ..core import Result
from ..ref import geom

ID = 'C02'
LEVEL = 'exploration'
ENGINE = 'E1-trace-explorer'
RULE = (
    'product LATTICES x SITESETS/label patterns x radius mode {float, per-label equal, per-label '
    'different, automatic} x inner fraction {1,0.9,0.5} x trajectory layout (2); per scenario a probe '
    'cloud: every site x direction table x radial factor {0,f/2,f-d,f+d,(1+f)/2,1-d,1+d,1.5} plus void '
    'points; variants: a site never visited by any probe, a site structure carrying its own scaled+rotated cell, the caller\'s radius object reused for a second call (unchanged, same answer), states re-read after derived views; evaluation = one probe judged sharply; distinct = distinct (scenario, state-array) outcomes'
    '; site set CAP3 (spheres just poking through a face, depth along the face normal) and probes along the face normals; automatic radius also with a position listed twice (x and x+1)'
)
LEVEL_TEXT = (
    'Bounded-exhaustive enumeration of the listed alphabets (lattice shapes and orientations incl. '
    'rotated/permuted/pymatgen-default triclinic, sites on faces/corners, label groups with '
    'never-visited members, all radius forms, inner fractions) with probes on both sides of every '
    'radius; each real state array is compared with a brute-force minimum-image oracle. Complete over '
    'the product; not a proof for lattices/values outside the alphabet.'
)
LEVEL_NOTE = 'Trusted: gvmc/ref/geom.py brute-force minimum image (self-tested K=2 vs K=3). Tie zone |d-Rf|<1e-4 A is dont-care (float32 KD-tree); all sharp probes are >=0.01 A from a radius.'
TECHNIQUE = 'bounded-exhaustive input-shape enumeration against an independent minimum-image reference model'
ASSUMPTIONS = [
    'site spheres of user-given radii do not overlap in the scenarios (checked), so the expected site is unique',
    'probes within 1e-4 A of a radius are not judged (counted as tie-zone)',
]

DELTA = 0.02
TIE = 1e-4
FRACTIONS = [1.0, 0.9, 0.5]


def direction_table(M, tier):
    dirs = [np.array(v, dtype=float) for v in itertools.product([-1, 0, 1], repeat=3) if any(v)]
    Minv = np.linalg.inv(np.asarray(M, dtype=float))
    dirs += [sgn * Minv[:, k] for k in range(3) for sgn in (1.0, -1.0)]  # the normals of the cell faces
    if tier == 'thorough':
        dirs += [M[i] for i in range(3)] + [-M[i] for i in range(3)]
        dirs += [np.array(v, dtype=float) for v in [(1, 2, 3), (-3, 1, 2), (2, -3, 1), (1, -2, -3), (0.3, 1, -0.2), (-1, 0.1, 0.25)]]
    return [d / np.linalg.norm(d) for d in dirs]


def cap_sites(M, radii):
    """Three sites whose spheres just poke through a cell face: site k lies 0.97 radii (measured along the face
    normal) inside the low face of axis k (k = 0, 1) or the high face of axis 2; the other coordinates are generic."""
    Minv = np.linalg.inv(np.asarray(M, dtype=float))
    out = np.array([[0.0, 0.37, 0.61], [0.58, 0.0, 0.27], [0.23, 0.71, 0.0]])
    for k in range(3):
        depth = 0.97 * radii[k] * np.linalg.norm(Minv[:, k])
        out[k, k] = depth if k < 2 else 1.0 - depth
    return out


def site_fracs(sc, M, radii):
    if sc['sites'] == 'CAP3':
        return cap_sites(M, radii)
    return np.array(alphabets.SITESETS[sc['sites']])


def radius_modes(labels):
    uniq = sorted(set(labels))
    diff = {lab: r for lab, r in zip(uniq, [0.7, 0.5, 0.9, 0.6])}
    return [
        ('float', 0.7),
        ('dict-equal', {lab: 0.7 for lab in uniq}),
        ('dict-different', diff),
        ('auto', None),
        ('float-overlap', 2.2),  # user radius larger than half the site separation: spheres overlap
    ]


def scenarios(tier, seed):
    out = []
    lats = alphabets.lattices(tier, seed)
    # ('Li1', 'Li10', 'Li1'): one label is a prefix of the other and has the larger radius in the dict-different mode
    sets = [('S3', lab) for lab in alphabets.LABELS[3]] + [('S3', ('Li1', 'Li10', 'Li1'))] + [('S4', alphabets.LABELS[4][1])] + [('CAP3', ('A', 'B', 'A'))]
    if tier == 'thorough':
        sets += [('S4', lab) for lab in (alphabets.LABELS[4][0], alphabets.LABELS[4][2])] + [('S2', lab) for lab in alphabets.LABELS[2]]
    for (lname, M), (sname, labels) in itertools.product(lats, sets):
        for mode, _ in radius_modes(labels):
            for f in FRACTIONS:
                for layout in (0, 1):
                    if mode == 'auto' and (f != 1.0):
                        continue
                    if mode == 'float-overlap' and (f != 0.5 or layout == 1 or sname != 'S3'):
                        continue
                    # skip = a site that no probe visits (label groups with never-visited members)
                    skips = [-1] if (mode in ('float', 'auto') or layout == 1) else [-1, 0, 1]
                    for skip in skips:
                        out.append({'lat': lname, 'M': M.tolist(), 'sites': sname, 'labels': list(labels), 'mode': mode, 'f': f, 'layout': layout, 'skip': skip, 'tier': tier})
    return out


def shards(tier, seed):
    sc = scenarios(tier, seed)
    n = 12
    out = [{'kind': 'cloud', 'scen': sc[i : i + n]} for i in range(0, len(sc), n)]
    out.append({'kind': 'auto-radius', 'tier': tier, 'seed': seed})
    return out


def build_cloud(sc):
    M = np.array(sc['M'])
    labels = sc['labels']
    mode = sc['mode']
    spec = dict(radius_modes(labels))[mode]
    f = sc['f']
    nominal = [spec[lab] for lab in labels] if isinstance(spec, dict) else [0.7] * len(labels)
    site_frac = site_fracs(sc, M, nominal)
    if mode == 'float-overlap':
        radii = [spec] * len(labels)
        Minv = np.linalg.inv(M)
        site_cart = site_frac @ M
        pts = []
        for s in range(len(labels)):
            for u in direction_table(M, sc['tier']):
                for rho in (0.0, 0.2, 0.45, 0.7, 0.95, 1.2):
                    pts.append((site_cart[s] + rho * spec * u) @ Minv)
        return M, site_frac, labels, spec, radii, np.array(pts)
    if mode == 'auto':
        radii = [0.7] * len(labels)  # nominal, used only to place probes
    elif isinstance(spec, dict):
        radii = [spec[lab] for lab in labels]
    else:
        radii = [spec] * len(labels)
    concretise.check_sites_separated(M, site_frac, radii)
    Minv = np.linalg.inv(M)
    site_cart = site_frac @ M
    rhos = [0.0, f / 2, f - DELTA, f + DELTA, (1 + f) / 2, 1 - DELTA, 1 + DELTA, 1.5]
    pts = []
    for s in range(len(labels)):
        if s == sc.get('skip', -1):
            continue
        for u in direction_table(M, sc['tier']):
            for rho in rhos:
                pts.append((site_cart[s] + rho * radii[s] * u) @ Minv)
    voids = concretise.void_points(M, site_frac, max(radii), 3)
    pts += [v for v in voids]
    return M, site_frac, labels, spec, radii, np.array(pts)


def layout_probes(pts, layout):
    K = len(pts)
    N = 5
    T = -(-K // N)
    if T == N:
        T += 1
    pad = T * N - K
    allp = np.vstack([pts, np.tile(pts[-1:], (pad, 1))]) if pad else pts
    if layout == 0:
        coords = allp.reshape(T, N, 3)
        index = lambda k: (k // N, k % N)  # noqa: E731
    else:
        coords = allp.reshape(N, T, 3).transpose(1, 0, 2)
        index = lambda k: (k % T, k // T)  # noqa: E731
    return coords, index, T, N


def eval_scenario(sc, res: Result | None = None):
    """-> (viols [(kind, detail)], outcome key, n sharp, n tie)"""
    viols = []
    M, site_frac, labels, spec, radii, pts = build_cloud(sc)
    coords, index, T, N = layout_probes(pts, sc['layout'])
    # species: framework 'S' atoms at columns 0 and 3, floating 'Li' elsewhere
    species = ['S', 'Li', 'Li', 'S', 'Li', 'Li', 'Li']
    li_cols = [i for i, s in enumerate(species) if s == 'Li']
    full = np.zeros((T, len(species), 3))
    full[:, li_cols, :] = coords
    full[:, 0, :] = [0.31, 0.33, 0.37]
    full[:, 3, :] = [0.71, 0.13, 0.57]
    traj = concretise.make_trajectory(full, species, M)
    # the site structure may carry its own (slightly different, differently oriented) cell, e.g. from a CIF: the
    # assignment is defined by the SIMULATION cell and the fractional site coordinates
    if sc.get('skip', -1) == 0 or sc['layout'] == 1 and sc['f'] == 0.9:
        Ms = (M * 1.03) @ geom.rotation((12.0, 31.0, 47.0)).T
    else:
        Ms = M
    site_given = site_frac
    if sc.get('skip', -1) in (-1, 1) and sc['layout'] == 0 and sc['f'] != 0.9:
        # the same sites written in other cells (fractional coordinates outside [0,1) are legitimate)
        site_given = site_frac + np.array([[-1, 0, 2], [1, -1, 0], [0, 2, -1], [2, 1, 1]])[: len(site_frac)]
    sites = concretise.make_sites(site_given, labels, Ms)
    f = sc['f']
    try:
        tr = traj.transitions_between_sites(sites, 'Li', site_radius=spec, site_inner_fraction=f)
    except Exception as e:  # noqa: BLE001
        return [(f'raise-{type(e).__name__}', f'{type(e).__name__}: {e}')], ('raise', type(e).__name__), 0, 0
    states = np.asarray(tr.states).copy()
    inner = np.asarray(tr.inner_states).copy()
    try:  # derived views must not write into the states
        tr.states_prev()
        tr.states_next()
        tr.occupancy()
        if not np.array_equal(np.asarray(tr.states), states) or not np.array_equal(np.asarray(tr.inner_states), inner):
            viols.append(('states-modified-by-a-derived-view', ''))
    except Exception:  # noqa: BLE001  (occupancy > 1 etc. are not this property's business)
        if not np.array_equal(np.asarray(tr.states), states):
            viols.append(('states-modified-by-a-derived-view', ''))
    # the event table delivered with the states must be exactly their change-log (whatever the geometry)
    from .. import impl as _impl
    from ..ref import hop as _hop

    try:
        ev_rows = sorted(_impl.event_rows(tr.events))
        own_rows = sorted(_hop.change_log_arrays(states.tolist(), inner.tolist()))
        if ev_rows != own_rows:
            viols.append(('events-not-the-change-log-of-the-delivered-states', f'{len(ev_rows)} rows vs {len(own_rows)} changes in the stored states'))
    except Exception as e:  # noqa: BLE001
        viols.append((f'events-consistency-raise-{type(e).__name__}', str(e)))
    # the caller's radius argument is reused for a second call: it must be unchanged and give the same answer
    import copy

    if isinstance(spec, dict) and spec != dict(radius_modes(labels))[sc['mode']]:
        viols.append(('site-radius-argument-modified-by-the-call', f'passed {dict(radius_modes(labels))[sc["mode"]]} now {spec}'))
    try:
        traj2 = concretise.make_trajectory(full, species, M)
        tr2 = traj2.transitions_between_sites(sites, 'Li', site_radius=spec, site_inner_fraction=f)
        if not np.array_equal(np.asarray(tr2.states), states) or not np.array_equal(np.asarray(tr2.inner_states), inner):
            viols.append(('second-call-with-the-same-radius-argument-differs', f'mode {sc["mode"]} f={f}'))
    except Exception as e:  # noqa: BLE001
        viols.append((f'second-call-raise-{type(e).__name__}', str(e)))
    if states.shape != (T, N) or inner.shape != (T, N):
        return [('state-shape-wrong', f'{states.shape} vs {(T, N)}')], ('shape',), 0, 0
    D = geom.dist_matrix(pts, site_frac, M)  # (K, S)
    sharp = tie = 0
    if sc['mode'] == 'auto':
        # uniqueness clause only: an assigned site must be the unique site within d_min/2
        DS = geom.dist_matrix(site_frac, site_frac, M)
        dmin = DS[np.triu_indices(len(site_frac), 1)].min()
        for k in range(len(pts)):
            t, a = index(k)
            s = states[t, a]
            sharp += 1
            if s != -1 and not (D[k, s] <= dmin / 2 + TIE):
                viols.append(('auto-assignment-not-within-half-min-separation', f'probe {k} {pts[k].tolist()} -> site {s} d={D[k, s]:.4f} dmin/2={dmin / 2:.4f}'))
                break
            if inner[t, a] not in (-1, s):
                viols.append(('inner-not-none-or-outer', f'probe {k}: outer {s} inner {inner[t, a]}'))
                break
        return viols, (sc['lat'], sc['sites'], tuple(labels), 'auto', states.tobytes()), sharp, tie
    R = np.array(radii)
    if sc['mode'] == 'float-overlap':
        # overlapping spheres: any site within the radius is acceptable; 'none' only if no site is within it
        for name, arr, scale in (('state', states, 1.0), ('inner-state', inner, f)):
            for k in range(len(pts)):
                t, a = index(k)
                margin = D[k] - R * scale
                if np.any(np.abs(margin) < TIE):
                    tie += 1
                    continue
                sharp += 1
                Eset = [s for s in range(len(R)) if margin[s] < 0]
                got = int(arr[t, a])
                if (Eset and got not in Eset) or (not Eset and got != -1):
                    viols.append((f'{name}-wrong', f'overlapping spheres: probe {k} got {got}, sites within radius*{scale}: {Eset}'))
                    break
        return viols, (sc['lat'], 'overlap', states.tobytes(), inner.tobytes()), sharp, tie
    for name, arr, scale in (('state', states, 1.0), ('inner-state', inner, f)):
        bad = []
        for k in range(len(pts)):
            t, a = index(k)
            margin = D[k] - R * scale
            if np.any(np.abs(margin) < TIE):
                tie += 1
                continue
            sharp += 1
            E = [s for s in range(len(R)) if margin[s] < 0]
            got = int(arr[t, a])
            if (E and got not in E) or (not E and got != -1):
                bad.append((k, pts[k].tolist(), got, E, [round(float(x), 5) for x in D[k]]))
        if bad:
            k, p, got, E, d = bad[0]
            viols.append((f'{name}-wrong', f'{len(bad)} of {len(pts)} probes wrong; first: probe {k} frac={p} got site {got}, sites within radius*{scale}: {E}, distances={d}, radii={radii}'))
    for k in range(len(pts)):
        t, a = index(k)
        if inner[t, a] not in (-1, states[t, a]):
            viols.append(('inner-not-none-or-outer', f'probe {k}: outer {states[t, a]} inner {inner[t, a]}'))
            break
    return viols, (sc['lat'], sc['sites'], tuple(labels), sc['mode'], f, states.tobytes(), inner.tobytes()), sharp, tie


def auto_radius_cases(tier):
    """Direct calls of _compute_site_radius: amplitudes x site sets with prescribed d_min."""
    out = []
    amps = [0.01, 0.1, 0.2, 0.26, 1.0, 5.0]
    dmins = [0.0, 0.4, 0.45, 0.505, 0.52, 0.6, 1.0, 3.0]  # 0.0: the same position listed twice (through_face: once at x and once at x+1)
    lats = alphabets.lattices(tier, 0)
    for (lname, M), amp, dmin, through_face in itertools.product(lats, amps, dmins, (False, True)):
        out.append({'lat': lname, 'M': M.tolist(), 'amp': amp, 'dmin': dmin, 'through_face': through_face})
    return out


def eval_auto_radius(c):
    from gemdat.transitions import _compute_site_radius

    M = np.array(c['M'])
    Minv = np.linalg.inv(M)
    u = np.array([0.6, 0.64, 0.48])
    base = np.array([0.99, 0.5, 0.01]) if c['through_face'] else np.array([0.3, 0.4, 0.45])
    s0 = base
    s1 = (base @ M + c['dmin'] * u) @ Minv
    if c['dmin'] == 0.0:
        s0 = np.array([0.0, 0.5, 0.25]) if c['through_face'] else base
        s1 = s0 + (np.array([1.0, 0.0, 0.0]) if c['through_face'] else 0.0)
    s2 = np.array([0.5, 0.05, 0.75])
    site_frac = np.array([s0, s1, s2])
    DS = geom.dist_matrix(site_frac, site_frac, M)
    dmin = DS[np.triu_indices(3, 1)].min()
    traj = concretise.make_trajectory(np.zeros((2, 1, 3)) + 0.5, ['Li'], M)
    sites = concretise.make_sites(site_frac, ['A', 'A', 'A'], M)
    viols = []
    try:
        r = float(_compute_site_radius(trajectory=traj, sites=sites, vibration_amplitude=c['amp']))
    except ValueError as e:
        if dmin < 0.6:  # the statement does not say when too-close sites are rejected
            return viols, ('ValueError-close-sites',)
        return [('auto-radius-unexpected-error', f'dmin={dmin:.4f} amp={c["amp"]}: {e}')], ('err',)
    except Exception as e:  # noqa: BLE001
        return [(f'auto-radius-raise-{type(e).__name__}', str(e))], ('err',)
    if not (r > 0) or 2 * r > dmin + 1e-9:
        viols.append(('auto-radius-spheres-overlap', f'r={r} dmin={dmin}'))
    return viols, ('r', round(r, 6))


def run_shard(shard) -> Result:
    res = Result()
    if shard['kind'] == 'auto-radius':
        for c in auto_radius_cases(shard['tier']):
            viols, key = eval_auto_radius(c)
            res.evals += 1
            res.outcome(('auto',) + key)
            res.stats['auto_radius_cases'] += 1
            for kind, detail in viols:
                res.violation(kind, {'auto_radius': c}, detail)
        res.sample({'auto_radius_case': c})
        return res
    for sc in shard['scen']:
        try:
            viols, key, sharp, tie = eval_scenario(sc)
        except concretise.Unrealisable as e:
            res.stats['scenarios_unrealisable'] += 1
            continue
        res.evals += sharp
        res.stats['probes_sharp'] += sharp
        res.stats['probes_tie_zone'] += tie
        res.stats['scenarios'] += 1
        res.outcome(hash(key))
        for kind, detail in viols:
            res.violation(kind, {'scenario': sc}, detail)
    res.sample({'scenario': {k: v for k, v in shard['scen'][0].items()}})
    return res


def finalize(total, tier):
    from ..core import HarnessError

    if total.stats['probes_sharp'] == 0:
        raise HarnessError('no sharply judged probes')
    if total.stats['scenarios_unrealisable'] > total.stats['scenarios']:
        raise HarnessError('most scenarios unrealisable')


def replay(case):
    if 'auto_radius' in case:
        viols, _ = eval_auto_radius(case['auto_radius'])
    else:
        viols, _, _, _ = eval_scenario(case['scenario'])
    return [{'kind': k, 'detail': d} for k, d in viols]
