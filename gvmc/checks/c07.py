"""C07 — results depend only on geometry: orientation, origin, labelling invariance.

Engine E1 (metamorphic, end-to-end): every hopping trace of the bound (2 Li atoms + S, P framework
atoms, 3 labelled sites) is concretised in a lattice and pushed through the whole real pipeline
(site states, events, jumps, matrices, jump diffusivity, collective counts, both RDFs, metrics,
density volume, free energy, optimal / percolating path costs). The same physical system is then
presented in transformed representations - rotated lattice vectors, fractional translations (voxel
multiples and a generic vector) of atoms+sites, every permutation class of atoms and of sites, and
ordered pairs of these - and the results must agree after the corresponding relabelling / roll.
"""

from __future__ import annotations

import itertools

import numpy as np

from .. import alphabets, concretise, impl
from ..core import Result
from ..ref import geom, hop

ID = 'C07'
LEVEL = 'exploration'
RULE = (
    'base scenarios: all 2-frame traces of (2 Li, 3 sites, no shell) and 3-frame traces = all histories of atom 0 x 4 '
    'tracks of atom 1 (thorough: all 3-frame traces), lattice assigned round-robin from LATTICES; transformations: '
    'axis permutation, generic rotation, 2 cube rotations, voxel-multiple translation pushing atoms through faces, '
    'generic irrational translation, atom reorderings (swap Li atoms; interleave framework), site permutations; thorough: '
    'float radius / per-label radii alternate; all 5 site permutations and ordered pairs (rotation x translation x permutation); evaluation = one transformed '
    'pipeline run compared with the base run; distinct = distinct base pipeline outcomes'
    '; observables include the centre-of-mass diffusivity and the collective pairs of a synthetic two-jump table over four wrapped sites (extra site a quarter cell behind base site 0) at cut-offs 1..5'
)
LEVEL_TEXT = (
    'Bounded-exhaustive metamorphic exploration: every trace of the bound is evaluated in the base '
    'representation and in every transformed representation of the alphabet; all listed analysis results must '
    'be identical up to relabelling (volumes/free energies rolled by the voxel shift, path costs equal). No '
    'hand-written expected values are involved.'
)
LEVEL_NOTE = 'Trusted: the transformation code of the check (pure index/matrix manipulation) and the concretiser. Comparisons with float results use rtol 1e-7; scenarios whose coordinates fall within 1e-9 voxel of a voxel edge are excluded from the volume comparison and counted.'
TECHNIQUE = 'bounded-exhaustive metamorphic testing over a transformation alphabet (explicit enumeration, no sampling)'
ASSUMPTIONS = ['site spheres separated; atoms placed well inside / outside the radii (no distance ties)', 'resolution chosen off the knife edge L/res = integer']

R_SITE = 0.6
RES = 0.9
SYMS = ['Li', 'Li', 'S', 'P']
LABELS = ['A', 'B', 'A']
TRACKS1 = [(1, 1, 1), (3, 0, 5), (0, 5, 5), (5, 0, 1)]
FW = [(0.31, 0.29, 0.33), (0.8, 0.15, 0.2)]
SITES = [(0.0031, 0.0047, 0.0023), (0.4331, 0.4747, 0.0023), (0.9831, 0.5347, 0.4123)]  # corner, interior, near-face; no half-cell separations


def base_traces(tier, part, nparts):
    syms = [0, 1, 3, 5]
    frames = list(itertools.product(syms, repeat=2))
    out = [[list(a), list(b)] for a in frames for b in frames]
    if tier == 'thorough':
        out += [[list(a), list(b), list(c)] for a in frames for b in frames for c in frames]
    else:
        for h in itertools.product(syms, repeat=3):
            for tr in TRACKS1:
                out.append([[h[0], tr[0]], [h[1], tr[1]], [h[2], tr[2]]])
    out = [t for t in out if hop.change_log(t)]
    return [(k, t) for k, t in enumerate(out) if k % nparts == part]


def shards(tier, seed):
    n = 64 if tier == 'quick' else 256
    return [{'part': p, 'nparts': n, 'tier': tier, 'seed': seed} for p in range(n)]


# ------------------------------------------------------------------ pipeline
def pipeline(coords, species, M, site_frac, labels, want_volume=True, li_cols=(0, 1), radius=None, site_order=None):
    """Run the real analysis pipeline; returns a dict of observables in the representation's own labelling."""
    out = {'_site_order': site_order}
    traj = concretise.make_trajectory(coords, species, M, time_step=2e-15, temperature=500.0)
    sites = concretise.make_sites(site_frac, labels, M)
    tr = traj.transitions_between_sites(sites, 'Li', site_radius=None if radius == 'auto' else (R_SITE if radius is None else dict(radius)))
    out['states'] = np.asarray(tr.states)
    out['inner'] = np.asarray(tr.inner_states)
    out['events'] = set(impl.event_rows(tr.events))
    out['tmatrix'] = np.asarray(tr.matrix())
    try:
        j = tr.jumps()
        out['jumps'] = set(impl.jump_rows(j.data))
        out['jmatrix'] = np.asarray(j.matrix())
        out['D_jump'] = float(j.jump_diffusivity(3))
        c = j.collective(max_dist=4.0)
        out['collective'] = (int(c.n_solo_jumps), int(c.n_coll_jumps), len(c.collective))
    except ValueError as e:
        if 'No jumps found' not in str(e):
            raise
        out['jumps'] = set()
    from gemdat.rdf import radial_distribution, radial_distribution_between_species

    r = radial_distribution_between_species(trajectory=traj, specie_1='Li', specie_2='S', max_dist=4.0, resolution=0.5)
    out['rdf_pair'] = np.asarray(r.y, dtype=float)
    rd = radial_distribution(transitions=tr, floating_specie='Li', max_dist=4.0, resolution=0.5)
    out['rdf_state'] = {(st if not st.startswith('~>') else '~>', x.label): np.asarray(x.y)[1:] for st, coll in rd.items() for x in coll}
    merged = {}
    for st, coll in rd.items():
        for x in coll:
            k = (st if not st.startswith('~>') else '~>', x.label)
            merged[k] = merged.get(k, 0) + np.asarray(x.y)[1:]
    out['rdf_state'] = merged
    # collective-jump detection between two jumps that share no site (an extra fourth site), several cut-offs
    try:
        import types

        import pandas as pd
        from pymatgen.core import Lattice as _Lattice

        from gemdat.collective import Collective

        inv = [list(labels_index).index(k) for k in range(3)] if (labels_index := out.get('_site_order')) else [0, 1, 2]
        # the extra site is defined relative to the site that is site 0 in the base labelling, a quarter cell "behind" it,
        # so that the two are neighbours through a cell face in some representations and inside the cell in others;
        # all four sites are wrapped into [0, 1) as a user's site file would be
        extra = np.asarray(site_frac)[inv[0]] + np.array([-0.25, 0.05, 0.1])
        sf4 = np.mod(np.vstack([np.asarray(site_frac), extra[None]]), 1.0)
        s4 = concretise.make_sites(sf4, list(labels) + ['A'], M)
        d4 = geom.dist_matrix(sf4, sf4, M)
        tie4 = bool(np.any(np.abs(d4[..., None] - np.array([1.0, 2.0, 3.0, 4.0, 5.0])) < 1e-9))  # a site distance on a cut-off: not compared
        df = pd.DataFrame(np.array([[0, inv[0], inv[1], 0, 1], [1, inv[2], 3, 1, 2]]), columns=['atom index', 'start site', 'destination site', 'start time', 'stop time'])
        cc = []
        for md in (1.0, 2.0, 3.0, 4.0, 5.0):
            c4 = Collective(jumps=types.SimpleNamespace(data=df), sites=s4, lattice=_Lattice(np.asarray(M)), max_steps=5, max_dist=md)
            cc.append(len(c4.collective))
        out['collective4'] = None if tie4 else tuple(cc)
    except Exception as e:  # noqa: BLE001
        out['collective4'] = ('raise', type(e).__name__)
    m = traj.metrics()
    out['metrics'] = (float(m.tracer_diffusivity(dimensions=3)), float(m.particle_density()), float(m.vibration_amplitude()), float(m.attempt_frequency()[0]))
    out['speed_tie'] = bool(np.any(np.abs(np.asarray(m.speed())[:, 1:]) < 1e-9))
    try:
        out['D_com'] = float(m.tracer_diffusivity_center_of_mass(dimensions=3))
    except Exception as e:  # noqa: BLE001
        out['D_com'] = ('raise', type(e).__name__)
    if want_volume:
        li = traj.filter('Li')
        vol = li.to_volume(resolution=RES)
        out['volume'] = np.asarray(vol.data)
        fe = vol.get_free_energy(temperature=500.0)
        out['free_energy'] = np.asarray(fe.data)
        p = np.asarray(li.positions)
        a = tuple(int(v) for v in vol.frac_coords_to_voxel(p[0, li_cols[0]]))
        b = tuple(int(v) for v in vol.frac_coords_to_voxel(p[-1, li_cols[1]]))
        out['voxels'] = (a, b)
        import networkx as nx

        try:
            path = fe.optimal_path(start=a, stop=b)
            out['path_cost'] = float(path.total_energy)
        except nx.NetworkXNoPath:
            out['path_cost'] = None
        except nx.NodeNotFound:
            # voxel of the coordinate (floor rule) and voxel of the density binning can differ inside the
            # 2^-40 tie zone of C08; such scenarios are excluded from the volume comparison by the caller
            out['path_cost'] = 'node-not-found'
        try:
            perc = fe.optimal_percolating_path(peaks=np.array([a]), percolate='x')
            out['perc_cost'] = None if perc is None else float(perc.total_energy)
        except nx.NodeNotFound:
            out['perc_cost'] = 'node-not-found'
    return out


# ------------------------------------------------------------------ transformations
def transforms(tier, seed, dims):
    """List of (name, spec). spec keys: R (3x3) | tau (3,) | atoms (permutation: new index -> old index) | sites (perm)."""
    R = geom.rotation(alphabets.GENERIC_ROT[seed % 4])
    perm = np.array([[0, 1, 0], [0, 0, 1], [1, 0, 0]], dtype=float)
    cubes = geom.cube_rotations()
    tv = np.array([3 / dims[0], (dims[1] - 1) / dims[1], 2 / dims[2]])
    tg = np.array(alphabets.GENERIC_VEC[seed % 4])
    singles = [
        ('rot-axis-permutation', {'R': perm}), ('rot-generic', {'R': R}), ('rot-cube-7', {'R': cubes[7]}), ('rot-cube-13', {'R': cubes[13]}),
        ('translate-voxel-multiple', {'tau': tv}), ('translate-generic', {'tau': tg}),
        ('atoms-swap-li', {'atoms': [1, 0, 2, 3]}), ('atoms-interleave', {'atoms': [2, 1, 3, 0]}),
        ('sites-cycle', {'sites': [1, 2, 0]}), ('sites-swap-last', {'sites': [0, 2, 1]}),
    ]
    if tier == 'thorough':
        singles += [('sites-' + ''.join(map(str, p)), {'sites': list(p)}) for p in itertools.permutations(range(3)) if list(p) not in ([0, 1, 2], [1, 2, 0], [0, 2, 1])]
        singles += [('atoms-reverse', {'atoms': [3, 2, 1, 0]})]
        pairs = []
        for (n1, s1), (n2, s2) in itertools.permutations(singles, 2):
            if set(s1) & set(s2):
                continue
            if 'R' in s1 or ('tau' in s1 and 'R' not in s2):
                pairs.append((n1 + '+' + n2, {**s1, **s2}))
        # start from non-initial representations too: every rotation x translation x one permutation
        singles += pairs[:: max(1, len(pairs) // 24)]
    return singles


def apply_transform(spec, coords, species, M, site_frac, labels):
    coords, M, site_frac = np.array(coords), np.array(M), np.array(site_frac)
    species, labels = list(species), list(labels)
    if 'R' in spec:
        M = M @ np.asarray(spec['R']).T
    if 'tau' in spec:
        coords = coords + np.asarray(spec['tau'])[None, None, :]
        site_frac = site_frac + np.asarray(spec['tau'])[None, :]
    if 'atoms' in spec:
        p = spec['atoms']
        coords = coords[:, p, :]
        species = [species[i] for i in p]
    if 'sites' in spec:
        s = spec['sites']
        site_frac = site_frac[s]
        labels = [labels[i] for i in s]
    return coords, species, M, site_frac, labels


def canonicalise(out, spec, species_base):
    """Map the observables of a transformed run back to the base labelling."""
    species = [species_base[i] for i in spec['atoms']] if 'atoms' in spec else list(species_base)
    old_index = spec.get('atoms', list(range(len(species_base))))
    li_base = [i for i, s in enumerate(species_base) if s == 'Li']
    li_new = [old_index[i] for i, s in enumerate(species) if s == 'Li']  # base atom index of each Li column
    col_of = [li_new.index(b) for b in li_base]  # transformed column holding base Li k
    amap = {new: li_base.index(b) for new, b in enumerate(li_new)}
    smap = {-1: -1}
    for new, old in enumerate(spec.get('sites', [0, 1, 2])):
        smap[new] = old
    res = dict(out)
    vs = np.vectorize(lambda v: smap[int(v)])
    res['states'] = vs(out['states'][:, col_of])
    res['inner'] = vs(out['inner'][:, col_of])
    res['events'] = {(amap[a], smap[s], smap[d], smap[si], smap[di], t) for a, s, d, si, di, t in out['events']}
    res['jumps'] = {(amap[a], smap[s], smap[d], t0, t1) for a, s, d, t0, t1 in out['jumps']}
    inv = [spec.get('sites', [0, 1, 2]).index(k) for k in range(3)]
    res['tmatrix'] = out['tmatrix'][np.ix_(inv, inv)]
    if 'jmatrix' in out:
        res['jmatrix'] = out['jmatrix'][np.ix_(inv, inv)]
    return res


def near_voxel_edge(coords, li_cols, dims, tau=None):
    x = np.mod(np.asarray(coords)[:, li_cols, :] + (0 if tau is None else np.asarray(tau)), 1) * np.array(dims)
    fr = x - np.floor(x)
    return bool(np.any(fr < 1e-9) or np.any(fr > 1 - 1e-9))


def compare(base, got, spec, dims):
    """-> list of (kind, detail)"""
    v = []

    def ne(key):
        return key in base or key in got

    if base['states'].shape != got['states'].shape or not np.array_equal(base['states'], got['states']) or not np.array_equal(base['inner'], got['inner']):
        v.append(('site-states-change', f'base {base["states"].tolist()} transformed {got["states"].tolist()}'))
        return v
    if base['events'] != got['events']:
        v.append(('events-change', f'{sorted(base["events"] ^ got["events"])}'))
    if base['jumps'] != got['jumps']:
        v.append(('jumps-change', f'{sorted(base["jumps"] ^ got["jumps"])}'))
    if not np.array_equal(base['tmatrix'], got['tmatrix']) or (ne('jmatrix') and not np.array_equal(base.get('jmatrix'), got.get('jmatrix'))):
        v.append(('count-matrices-change', ''))
    if ne('D_jump') and not np.isclose(base.get('D_jump', np.nan), got.get('D_jump', np.nan), rtol=1e-7, atol=0):
        v.append(('jump-diffusivity-changes', f'{base.get("D_jump")} vs {got.get("D_jump")}'))
    if base.get('collective4') is not None and got.get('collective4') is not None and base.get('collective4') != got.get('collective4'):
        v.append(('collective-pairs-between-disjoint-site-pairs-change', f'{base.get("collective4")} vs {got.get("collective4")}'))
    if base.get('collective') != got.get('collective'):
        v.append(('collective-jump-counts-change', f'{base.get("collective")} vs {got.get("collective")}'))
    if base['rdf_pair'].shape != got['rdf_pair'].shape or not np.allclose(base['rdf_pair'], got['rdf_pair'], rtol=1e-7, atol=1e-9):
        v.append(('species-rdf-changes', f'{np.round(base["rdf_pair"], 5).tolist()} vs {np.round(got["rdf_pair"], 5).tolist()}'))
    keys = set(base['rdf_state']) | set(got['rdf_state'])
    for k in keys:
        a = base['rdf_state'].get(k)
        b = got['rdf_state'].get(k)
        a = np.zeros_like(b) if a is None else a
        b = np.zeros_like(a) if b is None else b
        if not np.array_equal(a, b):
            v.append(('per-state-rdf-changes', f'{k}: {a.tolist()} vs {b.tolist()}'))
            break
    bm, gm = list(base['metrics']), list(got['metrics'])
    if base.get('speed_tie') or got.get('speed_tie'):
        # a frame-to-frame change of the distance from the start that is exactly 0 is a sign(0) tie in the
        # amplitude segmentation: the vibration amplitude is not compared for such scenarios
        bm[2] = gm[2] = 0.0
    if not np.allclose(bm, gm, rtol=1e-7, atol=0):
        v.append(('metrics-change', f'{base["metrics"]} vs {got["metrics"]}'))
    a, b = base.get('D_com'), got.get('D_com')
    if isinstance(a, tuple) or isinstance(b, tuple):
        if a != b:
            v.append(('centre-of-mass-diffusivity-changes', f'{a} vs {b}'))
    elif abs(a - b) > 1e-7 * max(abs(a), abs(b)) + 1e-9 * abs(base['metrics'][0]):
        v.append(('centre-of-mass-diffusivity-changes', f'{a} vs {b}'))
    if 'volume' in base and 'volume' in got:
        shift = None
        if 'tau' in spec:
            shift = tuple(int(round(t * d)) for t, d in zip(spec['tau'], dims))
        bv, bf = base['volume'], base['free_energy']
        if bv.shape != got['volume'].shape:
            v.append(('volume-grid-changes', f'{bv.shape} vs {got["volume"].shape}'))
            return v
        if shift is not None:
            bv = np.roll(bv, shift, axis=(0, 1, 2))
            bf = np.roll(bf, shift, axis=(0, 1, 2))
        if not np.array_equal(bv, got['volume']):
            v.append(('density-volume-not-rolled-by-shift' if shift else 'density-volume-changes', f'shift={shift}'))
        elif not np.allclose(bf, got['free_energy'], rtol=1e-9):
            v.append(('free-energy-not-rolled-by-shift' if shift else 'free-energy-changes', ''))
        else:
            if shift is not None:
                exp_vox = tuple(tuple((c + s) % d for c, s, d in zip(vx, shift, dims)) for vx in base['voxels'])
                if exp_vox != got['voxels']:
                    v.append(('voxel-of-atom-not-shifted', f'{base["voxels"]} + {shift} vs {got["voxels"]}'))
            for key, name in (('path_cost', 'optimal-path-cost-changes'), ('perc_cost', 'percolating-path-cost-changes')):
                a, b = base[key], got[key]
                if isinstance(a, str) or isinstance(b, str):
                    v.append(('path-endpoint-voxel-not-visited', f'{key}: {a} vs {b}'))
                    continue
                if (a is None) != (b is None) or (a is not None and not np.isclose(a, b, rtol=1e-7, atol=1e-12)):
                    v.append((name, f'{a} vs {b}'))
    return v


def evaluate(k, trace, tier, seed, res: Result, only=None):
    lats = alphabets.lattices(tier, seed)
    if tier == 'quick':
        lats = [l for l in lats if l[0] in ('cubic6', 'ortho567', 'hex-a5-c7', 'tric-pmg-default', 'tric-vesta')]
    lname, M = lats[k % len(lats)]
    site_frac = np.array(SITES)
    try:
        coords = concretise.concretise(trace, M, site_frac, [R_SITE] * 3, 1.0, framework=FW)
    except concretise.Unrealisable:
        res.stats['unrealisable'] += 1
        return
    case0 = {'k': k, 'trace': trace, 'tier': tier, 'seed': seed}
    # tie zones: half-cell steps (two minimum images) and pair distances on an RDF bin edge
    st = np.diff(coords, axis=0)
    fr = st - np.floor(st)
    if np.any(np.abs(fr - 0.5) < 1e-6):
        res.stats['skipped_half_cell_step'] += 1
        return
    edges = np.arange(0, 4.5 + 1e-9, 0.5)
    for t in range(len(coords)):
        D = geom.dist_matrix(coords[t], coords[t], M)
        if np.any(np.abs(D[..., None] - edges[None, None, 1:]) < 1e-6):
            res.stats['skipped_distance_on_bin_edge'] += 1
            return
    try:
        rad = None if k % 2 == 0 else {'A': R_SITE, 'B': R_SITE}  # float radius / per-label radii (labels interleaved: A,B,A)
        if k % 4 == 3:
            rad = 'auto'  # automatic radius (depends on the smallest site separation, whichever sites form it)
        base = pipeline(coords, SYMS, M, site_frac, LABELS, radius=rad)
    except Exception as e:  # noqa: BLE001
        if rad == 'auto' and isinstance(e, ValueError) and 'at least one array' in str(e):
            res.stats['auto_radius_scenarios_without_any_state_change'] += 1  # outside C03's "at least one change"
            return
        res.violation(f'base-pipeline-raises-{type(e).__name__}', case0, f'lattice {lname}: {e}')
        return
    o, _ = hop.state_arrays(trace)
    if base['states'].tolist() != o:
        # the symbolic trace was not recovered (C02's business); the invariance comparison below does not
        # depend on it, so the scenario is still used
        res.stats['base_states_differ_from_symbolic_trace'] += 1
    res.stats['base_scenarios'] += 1
    res.outcome(hash((lname, base['states'].tobytes(), tuple(sorted(base['jumps'])), base['volume'].tobytes(), round(base['metrics'][0] * 1e12, 6))))
    dims = base['volume'].shape
    li_cols = [0, 1]
    for name, spec in transforms(tier, seed, dims):
        if only and name != only:
            continue
        case = dict(case0, transform=name)
        c2, sp2, M2, sf2, lab2 = apply_transform(spec, coords, SYMS, M, site_frac, LABELS)
        res.evals += 1
        old_index = spec.get('atoms', [0, 1, 2, 3])
        li_new = [old_index[i] for i, x in enumerate(sp2) if x == 'Li']
        try:
            got = pipeline(c2, sp2, M2, sf2, lab2, li_cols=(li_new.index(0), li_new.index(1)), radius=rad, site_order=spec.get('sites'))
        except Exception as e:  # noqa: BLE001
            res.violation(f'transformed-pipeline-raises-{type(e).__name__}', case, f'{name} lattice {lname}: {e}')
            continue
        got = canonicalise(got, spec, SYMS)
        if 'tau' in spec:
            generic = not np.allclose(np.asarray(spec['tau']) * np.array(dims), np.round(np.asarray(spec['tau']) * np.array(dims)), atol=1e-12)
            if generic or near_voxel_edge(coords, li_cols, dims) or near_voxel_edge(coords, li_cols, dims, spec['tau']):
                got.pop('volume', None)
                res.stats['volume_comparisons_skipped_generic_shift_or_edge'] += 1
        for kind, detail in compare(base, got, spec, dims):
            res.violation(kind + '-under-' + name.split('-')[0], case, f'{name}, lattice {lname}: {detail}')
        res.stats[f'runs_{name.split("-")[0]}'] += 1


def run_shard(shard) -> Result:
    res = Result()
    last = None
    for k, trace in base_traces(shard['tier'], shard['part'], shard['nparts']):
        impl.clear_weak_caches()
        evaluate(k, trace, shard['tier'], shard['seed'], res)
        last = trace
    res.sample({'trace': last, 'transforms': [n for n, _ in transforms(shard['tier'], shard['seed'], (5, 6, 7))][:12]})
    return res


def finalize(total, tier):
    from ..core import HarnessError

    if total.stats['base_scenarios'] == 0:
        raise HarnessError(f'scenario construction failed too often: {dict(total.stats)}')


def replay(case):
    res = Result()
    evaluate(case['k'], case['trace'], case['tier'], case['seed'], res, only=case.get('transform'))
    return [{'kind': v['kind'], 'detail': v['detail']} for v in res.viols]
