"""C16 — trajectory caching is faithful and survives an interrupted cache write.

Engine E2 + fault injector: the real loaders (from_lammps / from_vasprun / from_gromacs) run on
synthesised source files in a private directory. The cache write path is recorded (gvmc.faults);
every crash state of that log (every byte prefix of the cache file, plus empty and garbage files) is
materialised and the loader is run again: it must return the trajectory of a cache-less parse and
leave a complete cache behind. All ordered pairs of loader-argument variants check that a cache
written under other arguments is never served. A BFS over fault/recover histories covers repeated
fault cycles.
"""

from __future__ import annotations

import hashlib
import itertools
import pickle
import shutil
import tempfile
from pathlib import Path

import numpy as np

from .. import bfs, faults, loaderfiles
from ..core import HarnessError, Result

ID = 'C16'
LEVEL = 'fault_enumeration'
ENGINE = 'E2-faults'
RULE = (
    'per loader (lammps, vasprun, gromacs): the recorded cache write log -> every crash state (file absent, empty, '
    'every byte prefix), garbage contents {NUL, text, proto-only, repeated bytes, half of a valid pickle + noise}; '
    'round trip to_cache/from_cache of 4 base trajectories in both internal modes; all ordered pairs of argument '
    'variants incl. equal-key type_mappings and a sibling vasprun.run1.xml (first load populates the cache, second must equal a cache-less parse with ITS arguments or raise the same '
    'exception); BFS over histories of {load(v), crash(v,k), garbage(v,g), delete(v)} up to depth 3 (thorough 4); '
    'evaluation = one (fault state, recovery) execution; distinct = distinct directory states'
    '; the write log includes renames (write-to-temporary-then-rename protocols get their own crash states); LAMMPS variants include atom_style charge with its matching data file x 3 type mappings'
)
LEVEL_TEXT = (
    'Exhaustive fault enumeration along the REAL write path: for every crash point of the recorded cache write '
    '(every byte), every garbage alphabet entry and every argument pair, the real loader is executed and its result '
    'and the cache left behind are compared with a cache-less parse. The enumeration follows whatever write protocol '
    'the code uses (a temp-file + rename protocol would change the crash states automatically).'
)
LEVEL_NOTE = 'Trusted: the synthesised minimal input files; pickle determinism. Faults covered: process crash during a sequential write (truncation), unreadable content. Not covered: readable-but-wrong pickles (bit flips in array data), permission errors (root).'
TECHNIQUE = 'exhaustive crash-point enumeration of the recorded write log + BFS over fault/recover histories, recovery through the real loaders'
ASSUMPTIONS = ['a crash leaves a prefix of the bytes written so far (sequential write, no reordering)']

FRESH_WORKER_PER_SHARD = True  # module-level state of the loaders must not leak from one shard into the next

GARBAGE = [b'\0', b'not a pickle at all\n', b'\x80\x04', b'garbage' * 100, b'\x80\x04\x95\x10\x00\x00\x00\x00\x00\x00\x00\x8c\x03abc']


def traj_equal(a, b):
    try:
        if type(a).__name__ != type(b).__name__:
            return False
        if [str(s) for s in a.species] != [str(s) for s in b.species]:
            return False
        if a.time_step != b.time_step or a.constant_lattice != b.constant_lattice:
            return False
        if repr(sorted((k, repr(v)) for k, v in a.metadata.items())) != repr(sorted((k, repr(v)) for k, v in b.metadata.items())):
            return False
        if not np.array_equal(np.asarray(a.lattice), np.asarray(b.lattice)):
            return False
        if a.coords_are_displacement != b.coords_are_displacement or not np.array_equal(np.asarray(a.coords), np.asarray(b.coords)):
            return False  # identical trajectory = identical stored representation, not only the same positions mod 1
        return bool(np.array_equal(np.asarray(a.positions), np.asarray(b.positions)))
    except Exception:  # noqa: BLE001
        return False


class Env:
    """A private directory with the source files of one loader."""

    def __init__(self, loader):
        self.loader = loader
        self.d = Path(tempfile.mkdtemp(prefix=f'gvmc-c16-{loader}-'))
        loaderfiles.LOADERS[loader][0](self.d)
        self.sources = set(p.name for p in self.d.iterdir())

    def caches(self):
        return sorted(p for p in self.d.iterdir() if p.name.endswith('.cache'))

    def clear_caches(self):
        # everything that is not a source file: caches and whatever else a write protocol may leave behind (temporaries)
        for p in list(self.d.iterdir()):
            if p.name not in self.sources and p.is_file():
                p.unlink()

    def load(self, variant):
        import contextlib
        import io

        try:
            with contextlib.redirect_stdout(io.StringIO()):  # the loaders print the unpickling error
                return ('ok', loaderfiles.call_loader(self.loader, self.d, variant))
        except Exception as e:  # noqa: BLE001
            return ('raise', type(e).__name__)

    def close(self):
        shutil.rmtree(self.d, ignore_errors=True)

    def dir_hash(self):
        h = hashlib.sha1()
        for p in self.caches():
            h.update(p.name.encode())
            h.update(p.read_bytes())
        return h.hexdigest()


def reference(env, variant):
    """Cache-less parse with these arguments + the recorded write log of its cache write."""
    env.clear_caches()
    with faults.recording() as log:
        out = env.load(variant)
    files = faults.final_contents(log)
    files = {p: c for p, c in files.items() if p.endswith('.cache')}
    on_disk = {str(p): p.read_bytes() for p in env.caches()}
    if on_disk != files:
        # the cache was written through an API the recorder does not see: fall back to the assumption that the
        # final content is written sequentially to the final path (the statement demands recovery from a
        # truncation at ANY byte however the file came to be), and say so in the evidence
        log = []
        for path, content in on_disk.items():
            log += [('open', path, 'wb'), ('write', path, content), ('close', path)]
        files = on_disk
        reference.fallbacks += 1
    return out, log, files


reference.fallbacks = 0


def outcome_equal(a, b):
    if a[0] != b[0]:
        return False
    return a[1] == b[1] if a[0] == 'raise' else traj_equal(a[1], b[1])


def check_recovery(env, variant, ref, files, state, res: Result, tag, case):
    """Materialise a fault state (dict path->bytes for the cache files), load, compare."""
    env.clear_caches()
    for path, content in state.items():
        Path(path).write_bytes(content)
    res.evals += 1
    got = env.load(variant)
    if not outcome_equal(got, ref):
        what = got[1] if got[0] == 'raise' else 'a different trajectory'
        res.violation(f'{tag}-wrong-result-after-fault', case, f'loader returned {what}; expected {"exception " + ref[1] if ref[0] == "raise" else "the cache-less parse"}')
        return
    if ref[0] == 'ok':
        for path, content in files.items():
            p = Path(path)
            if not p.exists():
                res.violation(f'{tag}-no-cache-left-behind', case, f'{p.name} missing after recovery')
                return
            try:
                from gemdat.trajectory import Trajectory

                back = Trajectory.from_cache(p)
            except Exception as e:  # noqa: BLE001
                res.violation(f'{tag}-incomplete-cache-left-behind', case, f'{p.name} unreadable after recovery: {type(e).__name__}')
                return
            if not traj_equal(back, ref[1]):
                res.violation(f'{tag}-wrong-cache-left-behind', case, f'{p.name} holds a different trajectory after recovery')
                return
    res.outcome(hashlib.sha1(repr(sorted((Path(k).name, hashlib.sha1(v).hexdigest()) for k, v in state.items())).encode()).hexdigest())


def shards(tier, seed):
    out = [{'kind': 'roundtrip'}]
    for loader in loaderfiles.LOADERS:
        nv = len(loaderfiles.VARIANTS[loader])
        for vi in range(nv):
            if tier == 'quick' and vi > 1 and loaderfiles.VARIANTS[loader][vi].get('cache') != 'EXPLICIT-STR':
                continue
            for part in range(4):
                out.append({'kind': 'crash', 'loader': loader, 'vi': vi, 'part': part, 'nparts': 4})
        for v1 in range(nv):
            out.append({'kind': 'pairs', 'loader': loader, 'v1': v1})
        out.append({'kind': 'bfs', 'loader': loader, 'depth': 3 if tier == 'quick' else 4})
    return out


def run_roundtrip(res: Result):
    from gemdat.trajectory import Trajectory

    from .c15 import bases, make_base

    d = Path(tempfile.mkdtemp(prefix='gvmc-c16-rt-'))
    try:
        for name, spec in bases():
            for pre in ([], ['positions'], ['displacements'], ['positions', 'displacements']):
                t, _ = make_base(spec)
                for q in pre:
                    getattr(t, q)
                mode = t.coords_are_displacement
                p = d / 'rt.cache'
                t.to_cache(p)
                back = Trajectory.from_cache(p)
                res.evals += 1
                res.outcome((name, tuple(pre)))
                case = {'roundtrip_base': name, 'pre': pre}
                if back.coords_are_displacement != mode or not np.array_equal(np.asarray(back.coords), np.asarray(t.coords)):
                    res.violation('roundtrip-internal-representation-differs', case, '')
                elif not traj_equal(back, t):
                    res.violation('roundtrip-trajectory-differs', case, '')
                bp, tp = back.base_positions, t.base_positions
                if (bp is None) != (tp is None) or (bp is not None and not np.array_equal(np.asarray(bp), np.asarray(tp))):
                    res.violation('roundtrip-base-positions-differ', case, '')
    finally:
        shutil.rmtree(d, ignore_errors=True)
    res.sample({'roundtrip': 'to_cache -> from_cache of 4 base trajectories in 4 internal states'})


def run_shard(shard) -> Result:
    res = Result()
    kind = shard['kind']
    if kind == 'roundtrip':
        run_roundtrip(res)
        return res
    loader = shard['loader']
    env = Env(loader)
    try:
        variants = loaderfiles.VARIANTS[loader]
        if kind == 'crash':
            variant = variants[shard['vi']]
            ref, log, files = reference(env, variant)
            if ref[0] != 'ok' or not files:
                res.stats['variants_without_cache_write'] += 1
                res.evals += 1
                res.outcome(('no-write', loader, shard['vi']))
                return res
            states = faults.crash_states(log)
            n = len(states)
            lo, hi = shard['part'] * n // shard['nparts'], (shard['part'] + 1) * n // shard['nparts']
            for k in range(lo, hi):
                st = states[k]
                case = {'loader': loader, 'variant': _jsv(variant), 'crash_state_index': k, 'sizes': {Path(p).name: len(c) for p, c in st.items()}}
                check_recovery(env, variant, ref, files, st, res, 'crash', case)
            if shard['part'] == 0:
                full = next(iter(files.values()))
                for gi, g in enumerate(GARBAGE + [full[: len(full) // 2] + b'\xff' * 40, b'\0' * len(full), b'XX' + full[2:]]):
                    st = {p: g for p in files}
                    case = {'loader': loader, 'variant': _jsv(variant), 'garbage_index': gi}
                    check_recovery(env, variant, ref, files, st, res, 'garbage', case)
            res.stats[f'crash_states_{loader}'] += hi - lo
            res.stats['write_log_incomplete_fallback_to_prefixes'] += reference.fallbacks
            res.stats['cache_file_bytes'] = max(res.stats['cache_file_bytes'], max(len(c) for c in files.values()))
            res.sample({'loader': loader, 'variant': _jsv(variant), 'write_log': [(e[0], Path(e[1]).name, len(e[2]) if e[0] == 'write' else e[2] if e[0] == 'open' else '') for e in log], 'crash_states': n})
        elif kind == 'pairs':
            v1 = variants[shard['v1']]
            refs2 = []
            for v2 in variants:  # all cache-less references first, before any other argument set has been used
                env.clear_caches()
                refs2.append(reference(env, v2)[0])
            for v2i, v2 in enumerate(variants):
                ref2 = refs2[v2i]
                env.clear_caches()
                env.load(v1)
                got = env.load(v2)
                res.evals += 1
                res.outcome((loader, shard['v1'], v2i, got[0]))
                case = {'loader': loader, 'first': _jsv(v1), 'second': _jsv(v2)}
                if not outcome_equal(got, ref2):
                    differing = sorted(set(k for k in set(v1) | set(v2) if v1.get(k) != v2.get(k)))
                    what = ('exception ' + got[1]) if got[0] == 'raise' else 'a trajectory'
                    exp = ('exception ' + ref2[1]) if ref2[0] == 'raise' else 'the cache-less parse with the second arguments'
                    res.violation('cache-of-other-arguments-served-' + '+'.join(differing), case, f'second load returned {what}, expected {exp}')
            res.sample({'loader': loader, 'first_arguments': _jsv(v1), 'second_arguments': [_jsv(v) for v in variants]})
        else:
            run_bfs(env, loader, variants, shard['depth'], res)
    finally:
        env.close()
    return res


def run_bfs(env, loader, variants, depth, res: Result):
    vs = variants[:2]
    refs = {}
    for vi, v in enumerate(vs):
        refs[vi] = reference(env, v)
    env.clear_caches()
    offsets = {}
    for vi in refs:
        ref, log, files = refs[vi]
        if ref[0] == 'ok' and files:
            data = next(iter(files.values()))
            import pickletools

            ks = {0, 1, len(data) - 1}
            try:
                for op, arg, pos in pickletools.genops(data):
                    ks.update({pos, pos + 1})
            except Exception:  # noqa: BLE001
                pass
            ks = sorted(k for k in ks if 0 <= k < len(data))
            step = max(1, len(ks) // 6)
            offsets[vi] = ks[::step][:6]

    def build(hist):
        env.clear_caches()
        w = {'errors': []}
        for ei, ev in enumerate(hist):
            vi = ev[1]
            ref, log, files = refs[vi]
            path = next(iter(files)) if files else None
            if ev[0] == 'load':
                got = env.load(vs[vi])
                if not outcome_equal(got, ref):
                    w['errors'].append(('bfs-wrong-result-after-fault-history', f'load {vi}', ei))
                elif ref[0] == 'ok' and path:
                    try:
                        from gemdat.trajectory import Trajectory

                        if not traj_equal(Trajectory.from_cache(path), ref[1]):
                            w['errors'].append(('bfs-wrong-cache-left-behind', f'load {vi}', ei))
                    except Exception as e:  # noqa: BLE001
                        w['errors'].append(('bfs-incomplete-cache-left-behind', f'load {vi}: {type(e).__name__}', ei))
            elif path is None:
                continue
            elif ev[0] == 'crash':
                Path(path).write_bytes(next(iter(files.values()))[: ev[2]])
            elif ev[0] == 'garbage':
                Path(path).write_bytes(GARBAGE[ev[2]])
            elif ev[0] == 'delete':
                if Path(path).exists():
                    Path(path).unlink()
        w['hash'] = env.dir_hash()
        return w

    def enabled(w, hist):
        evs = []
        for vi in refs:
            evs.append(('load', vi))
            if vi in offsets:
                evs += [('crash', vi, k) for k in offsets[vi]]
                evs += [('garbage', vi, g) for g in (0, 3)]
                evs.append(('delete', vi))
        return evs

    def canon(w):
        return (w['hash'], tuple(e[0] for e in w['errors']))

    def check_world(w, hist):
        return [(k, d) for k, d, ei in w['errors'] if ei == len(hist) - 1]

    def on_violation(k, hist, detail):
        res.violation(k, {'loader': loader, 'bfs_history': [list(e) for e in hist]}, detail)

    st = bfs.explore(build, enabled, canon, None, max_depth=depth, on_violation=on_violation, check_world=check_world)
    res.evals += st.transitions
    res.stats[f'bfs_states_{loader}'] += st.states
    res.stats[f'bfs_transitions_{loader}'] += st.transitions
    res.outcome((loader, 'bfs', st.states))
    res.sample({'loader': loader, 'bfs': {'states': st.states, 'transitions': st.transitions, 'fixpoint': st.fixpoint, 'depth': depth, 'crash_offsets': offsets}})


def _jsv(v):
    return {k: (val if not isinstance(val, dict) else dict(val)) for k, val in v.items()}


def finalize(total, tier):
    if total.stats['cache_file_bytes'] < 100:
        raise HarnessError('write log looks empty: no cache write observed')


def replay(case):
    res = Result()
    if 'roundtrip_base' in case:
        run_roundtrip(res)
    elif 'bfs_history' in case:
        env = Env(case['loader'])
        try:
            run_bfs(env, case['loader'], loaderfiles.VARIANTS[case['loader']], len(case['bfs_history']), res)
        finally:
            env.close()
    else:
        env = Env(case['loader'])
        try:
            if 'first' in case:
                v1, v2 = case['first'], case['second']
                ref2, _, _ = reference(env, v2)
                env.clear_caches()
                env.load(v1)
                got = env.load(v2)
                if not outcome_equal(got, ref2):
                    res.violation('cache-of-other-arguments-served', case, '')
            else:
                variant = case['variant']
                ref, log, files = reference(env, variant)
                if 'crash_state_index' in case:
                    st = faults.crash_states(log)[case['crash_state_index']]
                    check_recovery(env, variant, ref, files, st, res, 'crash', case)
                else:
                    gi = case['garbage_index']
                    full = next(iter(files.values()))
                    g = (GARBAGE + [full[: len(full) // 2] + b'\xff' * 40, b'\0' * len(full), b'XX' + full[2:]])[gi]
                    check_recovery(env, variant, ref, files, {p: g for p in files}, res, 'garbage', case)
        finally:
            env.close()
    return [{'kind': v['kind'], 'detail': v['detail']} for v in res.viols]
