"""C08 — density volumes conserve every sample and use a consistent voxel mapping.

Engine E1 (input-shape mode): for every (cell, resolution) of the alphabet and every axis, every
voxel of the resulting grid is probed at its lower edge, +-1e-6 next to the edge, and at its centre,
plus the cell faces 0 and 1-1e-16; small 3-D grids are probed at every voxel with distinguishable
multiplicities; the voxel<->fraction round trip is enumerated for every index of every grid size up
to 2048. Oracle: floor(x*n) in exact rational arithmetic.
"""

from __future__ import annotations

import itertools
from fractions import Fraction

import numpy as np

from .. import alphabets, concretise
from ..core import Result
from ..ref import geom

ID = 'C08'
LEVEL = 'exploration'
RULE = (
    'cell lengths {1,2.2,4,6.3,7.3,9.9} (orthogonal, triclinic, rotated) x resolutions {0.1,0.2,0.25,0.3,0.5,0.7,1,'
    'L}; per axis every voxel k: coordinates k/n, k/n+-1e-6, (k+1/2)/n, plus 0 and 1-1e-16, other axes generic; '
    '3-D products on grids with unequal axes (every voxel, multiplicity pattern); round trip for every index of '
    'every grid size <= 2048 (argument arrays unchanged); slab cells with 300 voxels on one axis; 2^20+64 samples; source in position or displacement mode; evaluation = one probed coordinate; distinct = distinct (shape, histogram) outcomes'
    '; an earlier volume re-read after a later one on the same grid; all histories of length 4 (thorough 5) over {0, 0.99, 0.01, 0.98, 0.5} through a cell face, volume taken in displacement mode'
)
LEVEL_TEXT = (
    'Bounded-exhaustive over the cell/resolution alphabet and EVERY voxel edge and centre of every '
    'resulting grid; the whole density array is compared with an exact-rational floor(x*n) histogram; '
    'voxel size clause and index round trip enumerated completely up to grid size 2048 per axis.'
)
LEVEL_NOTE = 'Trusted: fractions.Fraction arithmetic. Tie zone 0 < |x*n - round(x*n)| <= 2^-40: such samples must be counted exactly once in one of the two adjacent voxels; coordinates that are exactly on a voxel face (x*n an integer in exact arithmetic) are judged sharply.'
TECHNIQUE = 'bounded-exhaustive boundary-value enumeration against an exact-rational reference'
ASSUMPTIONS = ['resolution does not exceed the cell lengths']

LENGTHS = [1.0, 2.2, 4.0, 6.3, 7.3, 9.9]
RES = [0.1, 0.2, 0.25, 0.3, 0.5, 0.7, 1.0, 'L']
TIE = 2.0**-40
GEN = (0.4142135, 0.7320508)


def cells(tier, seed):
    out = []
    R = geom.rotation(alphabets.GENERIC_ROT[seed % 4])
    for i, a in enumerate(LENGTHS):
        b = LENGTHS[(i + 2) % 6]
        c = LENGTHS[(i + 3) % 6]
        out.append((f'ortho-{a}-{b}-{c}', np.diag([a, b, c])))
        if a >= 2:
            out.append((f'tric-{a}-{b}-{c}', geom.from_parameters(a, b, c, 70, 80, 100)))
        if tier == 'thorough' or i % 3 == 0:
            out.append((f'ortho-rot-{a}-{b}-{c}', np.diag([a, b, c]) @ R.T))
    # slab-like cells: one long axis gives several hundred voxels along it
    out += [('slab-3-3-60', np.diag([3.0, 3.0, 60.0])), ('slab-3-60-3', np.diag([3.0, 60.0, 3.0])), ('slab-60-3-3', np.diag([60.0, 3.0, 3.0]))]
    return out


def shards(tier, seed):
    out = []
    for name, M in cells(tier, seed):
        for res in RES:
            out.append({'kind': 'axis', 'cell': name, 'M': M.tolist(), 'res': res})
    for k in range(6):
        out.append({'kind': 'grid3d', 'k': k})
    # sample counts around 2^20 (a natural block size): conservation must not depend on the amount of data
    for nsamp in ([2**20 + 64] if tier == 'quick' else [2**20 - 1, 2**20 + 64, 2**21 + 3]):
        out.append({'kind': 'large', 'nsamp': nsamp})
    if tier == 'thorough':
        out.append({'kind': 'huge'})  # > 2^24 voxels and > 65535 samples in one voxel
    # an atom vibrating through a cell face and landing exactly on it, volume taken in displacement mode
    for name, M in [('cubic-4', np.eye(3) * 4.0), ('tric-4-5-6', geom.from_parameters(4, 5, 6, 70, 80, 100))]:
        for axis in range(3):
            out.append({'kind': 'faceosc', 'cell': name, 'M': M.tolist(), 'axis': axis, 'L': 4 if tier == 'quick' else 5})
    hi = 2048 if tier == 'thorough' else 1024
    for lo in range(1, hi + 1, 128):
        out.append({'kind': 'roundtrip', 'lo': lo, 'hi': min(lo + 127, hi)})
    return out


def expected_index(x, n):
    """(index, is_tie, other) by exact rational arithmetic."""
    v = Fraction(float(x)) * n
    fl = v.numerator // v.denominator
    r = v - fl
    if r == 0:
        return int(fl), False, None  # x*n is exactly an integer: floor is unambiguous, judged sharply
    if r <= Fraction(TIE):
        return int(fl), True, int(fl) - 1
    if 1 - r <= Fraction(TIE):
        return int(fl), True, int(fl) + 1
    return int(fl), False, None


def eval_volume(coords, M, res):
    """coords (T, N, 3) in [0,1). -> viols, key, n_sharp, n_tie"""
    from gemdat.volume import trajectory_to_volume

    M = np.asarray(M)
    T, N = coords.shape[:2]
    traj = concretise.make_trajectory(coords, ['Li'] * N, M)
    viols = []
    if int(coords.size) % 2 == 0 and T > 1:
        traj.displacements  # the trajectory may be in either internal representation when the volume is taken
    try:
        vol = trajectory_to_volume(traj, resolution=res)
    except Exception as e:  # noqa: BLE001
        return [(f'volume-raise-{type(e).__name__}', str(e))], ('raise',), 0, 0
    data = np.asarray(vol.data).copy()
    shape = data.shape
    try:
        # a later density on the same grid (another trajectory: one frame, all atoms moved) leaves this one as it was
        other = trajectory_to_volume(concretise.make_trajectory(np.mod(coords[:1] + 0.37, 1.0), ['Li'] * N, M), resolution=res)
        if not np.array_equal(np.asarray(vol.data), data):
            viols.append(('earlier-volume-changed-by-a-later-volume-on-the-same-grid', f'sum now {int(np.asarray(vol.data).sum())}, was {int(data.sum())}; shares memory with the later one: {bool(np.shares_memory(np.asarray(vol.data), np.asarray(other.data)))}'))
        del other
    except Exception as e:  # noqa: BLE001
        viols.append((f'second-volume-raise-{type(e).__name__}', str(e)))
    if int(data.sum()) != T * N:
        viols.append(('voxel-sum-not-frames-times-atoms', f'sum={int(data.sum())} expected={T * N} shape={shape} res={res}'))
    lengths = np.linalg.norm(M, axis=1)
    size = np.asarray(vol.voxel_size)
    for ax in range(3):
        own = lengths[ax] / shape[ax]
        if abs(size[ax] - own) > 1e-9:
            viols.append(('voxel-size-inconsistent', f'axis {ax}: reported {size[ax]} vs L/n {own}'))
        if not (res * (1 - 1e-9) <= own < 2 * res * (1 + 1e-9)):
            viols.append(('voxel-edge-outside-[res,2res)', f'axis {ax}: L={lengths[ax]} n={shape[ax]} edge={own} res={res}'))
    if T > 2 and T % 3 == 0:
        # history: a volume of the first frames, the returned data edited, the trajectory extended in place - the next
        # volume must count every frame of the longer trajectory
        try:
            ta = concretise.make_trajectory(coords[: T // 2], ['Li'] * N, M)
            tb = concretise.make_trajectory(coords[T // 2:], ['Li'] * N, M)
            v1 = trajectory_to_volume(ta, resolution=res)
            v1.data[...] = -7
            ta.extend(tb)
            v2 = trajectory_to_volume(ta, resolution=res)
            fresh = np.asarray(trajectory_to_volume(concretise.make_trajectory(coords, ['Li'] * N, M), resolution=res).data)
            if not np.array_equal(np.asarray(v2.data), fresh) or int(np.asarray(v2.data).sum()) != T * N:
                viols.append(('volume-stale-after-extend-or-shares-returned-data', f'sum {int(np.asarray(v2.data).sum())} expected {T * N}'))
        except Exception as e:  # noqa: BLE001
            viols.append((f'volume-after-extend-raise-{type(e).__name__}', str(e)))
    E = np.zeros(shape, dtype=int)
    ties = []
    # the coordinates that are binned are the positions the trajectory reports (after a displacement round trip they
    # may differ from the input by an ulp, which matters for samples exactly on a voxel face)
    reported = np.array(traj.positions)
    d = reported - np.mod(coords, 1)
    if reported.shape != coords.shape or np.any(np.abs(d - np.round(d)) > 1e-9):
        viols.append(('positions-differ-from-input', 'reported positions are not the input coordinates'))
    pts = reported.reshape(-1, 3)
    ok = True
    for p in pts:
        idx = []
        alt = []
        for ax in range(3):
            i, tie, other = expected_index(p[ax], shape[ax])
            if not (0 <= i < shape[ax]):
                ok = False
            idx.append(i)
            alt.append(other if tie else None)
        if not ok:
            break
        if any(a is not None for a in alt):
            cands = set()
            for choice in itertools.product(*[[i] if a is None else [i, a] for i, a in zip(idx, alt)]):
                if all(0 <= c < s for c, s in zip(choice, shape)):
                    cands.add(choice)
            ties.append(cands)
        else:
            E[tuple(idx)] += 1
    if not ok:
        return viols + [('harness-expected-index-out-of-range', '')], ('bad',), 0, 0
    Rm = data - E
    if np.any(Rm < 0) or int(Rm.sum()) != len(ties):
        bad = np.argwhere(Rm != 0)[:4].tolist()
        viols.append(('voxel-not-floor-of-coordinate-times-grid', f'shape={shape} res={res} mismatching voxels {bad} got={[int(data[tuple(b)]) for b in bad]} expected={[int(E[tuple(b)]) for b in bad]}'))
    else:
        allowed = set().union(*ties) if ties else set()
        for b in np.argwhere(Rm > 0):
            if tuple(b) not in allowed:
                viols.append(('tie-sample-in-non-adjacent-voxel', f'voxel {b.tolist()}'))
                break
    return viols, (shape, data.tobytes()), len(pts) - len(ties), len(ties)


def axis_probe_coords(M, res, axis):
    lengths = np.linalg.norm(np.asarray(M), axis=1)
    n = int(lengths[axis] // res)  # nominal grid size only used to place probes
    n = max(n, 1)
    vals = [0.0, 1 - 1e-16]
    for k in range(n):
        vals += [k / n, (k + 0.5) / n]
        if k > 0:
            vals += [k / n - 1e-6]
        vals += [k / n + 1e-6]
    # also probe the neighbouring nominal sizes (float floor-division may pick n-1)
    if n > 1:
        vals += [k / (n - 1) for k in range(1, n - 1)]
    # dyadic coordinates: exactly representable, and exactly ON a voxel face whenever the grid size is even
    vals += [0.5, 0.25, 0.75, 0.125, 0.375, 0.625, 0.875]
    vals = [v for v in vals if 0 <= v < 1]
    K = len(vals)
    N = 3
    T = -(-K // N)
    vals = vals + [0.5] * (T * N - K)
    coords = np.zeros((T, N, 3))
    others = [a for a in range(3) if a != axis]
    coords[..., others[0]] = GEN[0]
    coords[..., others[1]] = GEN[1]
    coords[..., axis] = np.array(vals).reshape(T, N)
    return coords


def run_shard(shard) -> Result:
    res = Result()
    if shard['kind'] == 'axis':
        M = np.array(shard['M'])
        from pymatgen.core import Lattice

        lengths = Lattice(M).lengths  # the lengths the implementation sees (rotation leaves 1-ulp noise)
        r = shard['res']
        r = float(min(lengths)) if r == 'L' else r
        if r > min(lengths):
            res.stats['skipped_resolution_exceeds_cell'] += 1
            res.evals += 0
            return res
        for axis in range(3):
            coords = axis_probe_coords(M, r, axis)
            viols, key, sharp, tie = eval_volume(coords, M, r)
            res.evals += sharp + tie
            res.stats['samples_sharp'] += sharp
            res.stats['samples_tie_zone'] += tie
            res.outcome(hash(key))
            for kind, detail in viols:
                res.violation(kind, {'coords': coords.tolist(), 'M': M.tolist(), 'res': r}, detail)
        res.sample({'cell': shard['cell'], 'resolution': r, 'probed_axis_values_example': coords[:2, :, 2].tolist()})
        return res
    if shard['kind'] == 'faceosc':
        M, axis = np.array(shard['M']), shard['axis']
        others = [a for a in range(3) if a != axis]
        for seq in itertools.product([0.0, 0.99, 0.01, 0.98, 0.5], repeat=shard['L']):
            coords = np.zeros((shard['L'], 2, 3))
            coords[:, 0, axis] = seq
            coords[:, 0, others[0]] = 0.3
            coords[:, 0, others[1]] = 0.6
            coords[:, 1, :] = np.array(seq)[:, None]  # second atom: the same history on all three axes
            viols, key, sharp, tie = eval_volume(coords, M, 0.5)
            res.evals += sharp + tie
            res.stats['samples_sharp'] += sharp
            res.stats['samples_tie_zone'] += tie
            res.stats['face_oscillation_histories'] += 1
            res.outcome(hash(key))
            for kind, detail in viols:
                res.violation(kind, {'coords': coords.tolist(), 'M': M.tolist(), 'res': 0.5}, detail)
        res.sample({'face_oscillation_cell': shard['cell'], 'axis': axis, 'values': [0.0, 0.99, 0.01, 0.98, 0.5]})
        return res
    if shard['kind'] == 'grid3d':
        combos = [((1.0, 1.3, 2.2), 0.5), ((1.0, 1.0, 1.0), 0.3), ((2.2, 1.0, 1.3), 0.4), ((1.3, 2.2, 1.0), 0.33), ((2.0, 1.0, 3.0), 0.7), ((1.0, 2.0, 1.5), 0.5)]
        abc, r = combos[shard['k']]
        for tric in (False, True):
            M = geom.from_parameters(*abc, 75, 85, 95) if tric else np.diag(abc)
            n = [int(x // r) for x in abc]
            pts = []
            for kx, ky, kz in itertools.product(*[range(m) for m in n]):
                mult = 1 + (kx + 2 * ky + 3 * kz) % 3
                for j in range(mult):
                    pts.append(((kx + 0.3 + 0.1 * j) / n[0], (ky + 0.5) / n[1], (kz + 0.7 - 0.1 * j) / n[2]))
            K = len(pts)
            N = 4
            T = -(-K // N)
            pts = pts + [pts[0]] * (T * N - K)
            coords = np.array(pts).reshape(T, N, 3)
            viols, key, sharp, tie = eval_volume(coords, M, r)
            res.evals += sharp + tie
            res.stats['samples_sharp'] += sharp
            res.stats['samples_tie_zone'] += tie
            res.outcome(hash(key))
            for kind, detail in viols:
                res.violation(kind, {'coords': coords.tolist(), 'M': np.asarray(M).tolist(), 'res': r}, detail)
        res.sample({'grid3d_cell': abc, 'resolution': r})
        return res
    if shard['kind'] == 'huge':
        from gemdat.volume import trajectory_to_volume

        M = np.eye(3) * 25.75
        T = 70001
        coords = np.zeros((T, 1, 3)) + np.array([0.5019, 0.2503, 0.7507])
        coords[::1000, 0, :] = [0.1003, 0.9007, 0.3001]
        traj = concretise.make_trajectory(coords, ['Li'], M)
        try:
            vol = trajectory_to_volume(traj, resolution=0.1)
            data = np.asarray(vol.data)
            res.evals += T
            res.stats['samples_sharp'] += T
            res.outcome(('huge', data.shape, int(data.max())))
            if int(data.sum(dtype=np.int64)) != T or int(data.max()) != T - len(coords[::1000]):
                res.violation('voxel-sum-not-frames-times-atoms', {'huge': True}, f'grid {data.shape}: sum {int(data.sum(dtype=np.int64))} max {int(data.max())} expected {T} / {T - len(coords[::1000])}')
        except Exception as e:  # noqa: BLE001
            res.violation(f'volume-raise-{type(e).__name__}', {'huge': True}, str(e))
        res.sample({'huge_grid': '257^3 voxels, 70001 frames'})
        return res
    if shard['kind'] == 'large':
        from gemdat.volume import trajectory_to_volume

        nsamp = shard['nsamp']
        N = 64
        T = -(-nsamp // N)
        M = np.diag([4.0, 5.0, 6.0])
        r = 0.9
        n = [int(x // r) for x in (4.0, 5.0, 6.0)]
        k = np.arange(T * N)
        vox = np.stack([(k * 7) % n[0], (k * 3 + k // 5) % n[1], (k // 11) % n[2]], axis=1)
        u = np.stack([0.1 + 0.8 * ((k * 0.6180339887) % 1), 0.1 + 0.8 * ((k * 0.7548776662) % 1), 0.1 + 0.8 * ((k * 0.5698402910) % 1)], axis=1)
        coords = ((vox + u) / np.array(n)).reshape(T, N, 3)
        traj = concretise.make_trajectory(coords, ['Li'] * N, M)
        case = {'large_nsamp': nsamp}
        try:
            vol = trajectory_to_volume(traj, resolution=r)
            data = np.asarray(vol.data)
            E = np.zeros(tuple(n), dtype=int)
            np.add.at(E, (vox[:, 0], vox[:, 1], vox[:, 2]), 1)
            res.evals += T * N
            res.stats['samples_sharp'] += T * N
            res.outcome(('large', nsamp, int(data.sum())))
            if int(data.sum()) != T * N:
                res.violation('voxel-sum-not-frames-times-atoms', case, f'{int(data.sum())} != {T * N} (frames {T} x atoms {N})')
            elif data.shape != E.shape or not np.array_equal(data, E):
                res.violation('voxel-not-floor-of-coordinate-times-grid', case, f'large trajectory: {int(np.sum(data != E))} voxels differ')
        except Exception as e:  # noqa: BLE001
            res.violation(f'volume-raise-{type(e).__name__}', case, str(e))
        res.sample({'large_trajectory_samples': T * N})
        return res
    # round trip
    from pymatgen.core import Lattice

    from gemdat.volume import Volume

    for n in range(shard['lo'], shard['hi'] + 1):
        dims = (n, max(1, n // 2), max(1, (n * 2) // 3))
        vol = Volume(data=np.zeros(dims, dtype=np.int8), lattice=Lattice(np.eye(3) * 5))
        v = np.stack([np.arange(n), np.arange(n) % dims[1], np.arange(n) % dims[2]], axis=1)
        try:
            back = np.asarray(vol.frac_coords_to_voxel(vol.voxel_to_frac_coords(v)))
            f = np.asarray(vol.voxel_to_frac_coords(v))
            # the caller's array is used twice: it must not be modified and must map to the same voxels
            f0 = np.array(f, dtype=float)
            b1 = np.asarray(vol.frac_coords_to_voxel(f0))
            b2 = np.asarray(vol.frac_coords_to_voxel(f0))
            v0 = np.array(v)
            vol.voxel_to_frac_coords(v0)
            if not np.array_equal(f0, f) or not np.array_equal(b1, b2) or not np.array_equal(v0, v):
                res.violation('voxel-conversion-modifies-its-argument', {'roundtrip_n': n}, f'dims={dims}')
        except Exception as e:  # noqa: BLE001
            res.violation(f'roundtrip-raise-{type(e).__name__}', {'roundtrip_n': n}, str(e))
            continue
        res.evals += n
        res.stats['roundtrip_indices'] += n
        if not np.array_equal(back, v):
            bad = np.argwhere(back != v)[:3].tolist()
            res.violation('voxel-roundtrip-not-identity', {'roundtrip_n': n}, f'dims={dims} first mismatches at {bad}')
        own_c = (v + 0.5) / np.array(dims)
        if not np.allclose(f, own_c, atol=1e-12):
            res.violation('voxel-centre-wrong', {'roundtrip_n': n}, f'dims={dims}')
        res.outcome(('rt', n, bool(np.array_equal(back, v))))
    res.sample({'roundtrip_grid_sizes': [shard['lo'], shard['hi']]})
    return res


def finalize(total, tier):
    from ..core import HarnessError

    if total.stats['samples_sharp'] == 0:
        raise HarnessError('no sharply judged samples')


def replay(case):
    if case.get('huge'):
        r = run_shard({'kind': 'huge'})
        return [{'kind': v['kind'], 'detail': v['detail']} for v in r.viols]
    if 'large_nsamp' in case:
        r = run_shard({'kind': 'large', 'nsamp': case['large_nsamp']})
        return [{'kind': v['kind'], 'detail': v['detail']} for v in r.viols]
    if 'roundtrip_n' in case:
        r = run_shard({'kind': 'roundtrip', 'lo': case['roundtrip_n'], 'hi': case['roundtrip_n']})
        return [{'kind': v['kind'], 'detail': v['detail']} for v in r.viols]
    viols, _, _, _ = eval_volume(np.array(case['coords']), np.array(case['M']), case['res'])
    return [{'kind': k, 'detail': d} for k, d in viols]
