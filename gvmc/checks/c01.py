"""C01 — periodic positions/displacements are exact, wrapped, lattice-shift invariant.

Engine E1 (input-shape mode): every coordinate history over the FACE alphabet (values on / within
rounding distance of a cell face, negative, > 1) up to the frame bound, on every lattice, with every
integer-shift pattern of the bound, is pushed through the real Trajectory object; positions,
displacements, cumulative displacements, distances, MSD, tracer diffusivity and the density-volume
precondition are compared with the definitions.
"""

from __future__ import annotations

import itertools

import numpy as np

from .. import alphabets, concretise
from ..core import Result

ID = 'C01'
LEVEL = 'exploration'
RULE = (
    'histories of one coordinate over FACE^F (F<=3; 18 values: 0,-0,+-1e-17,1-1e-16,1,1+2e-16,0.5 and float '
    'neighbours,0.25,0.75,0.1,0.9,-0.3,1.6,-1,2) on each axis x LATTICES x integer shift patterns {-2,-1,0,1,3}^F '
    '(all for F=2, 6 fixed patterns for F=3); all-axes histories (F=2, 5 values on all 6 coordinates); two-atom '
    'tracks; for F<=2 six further values 1e-9..1e-6 from the faces; input array unchanged; query-then-extend history; evaluation = one (history, shift) through the real Trajectory; distinct = distinct observed '
    '(positions, displacements) byte patterns'
    '; every history also handed over through the displacement-mode constructor (per-step displacements + base positions): reported displacements before / after reading positions'
)
LEVEL_TEXT = (
    'Bounded-exhaustive over the product of the face-value alphabet, frame counts <= 3, axes, lattices '
    '(cubic to triclinic, rotated) and integer shifts; every evaluation checks the half-open range on the '
    'first and later reads, congruence mod 1, minimum-image steps, running-sum reconstruction, own '
    'Cartesian lengths and shift invariance of everything derived. Complete within the alphabet; other '
    'coordinate values are covered only by the argument that the code is element-wise in the coordinates.'
)
LEVEL_NOTE = 'Trusted: numpy float arithmetic for the oracle (tolerance 1e-12 on congruences, exact comparisons for the [0,1) range). Steps whose fractional part is within 1e-9 of 1/2 have two minimum images: only the non-invariance clauses are judged there.'
TECHNIQUE = 'bounded-exhaustive input-shape enumeration (boundary-value alphabet x lattices x shifts) against the definitions'
ASSUMPTIONS = ['constant-lattice periodic trajectories', 'half-cell steps (two minimum images) are excluded from the shift-invariance clauses only']

FACE = alphabets.FACE
# values a little further from the faces than rounding noise (a tolerance-based snap to the face would move them)
NEAR = [1 - 1e-6, -7e-6, 0.999993, 1e-6, 1 - 1e-9, 2e-9]
SHIFTS = [-2, -1, 0, 1, 3]
SHIFT3 = [(0, 0, 0), (1, 0, 0), (0, -1, 3), (3, 1, -2), (-2, -2, 1), (0, 3, 0)]
OTHER = (0.3125, 0.71875)  # generic constants on the non-moving axes
SMALL5 = [0.0, 0.9, 1e-17 * -1, 0.3, 1.6]


def lat_list(tier, seed):
    return alphabets.lattices(tier, seed)


def shards(tier, seed):
    out = []
    for lname, M in lat_list(tier, seed):
        for axis in range(3):
            out.append({'kind': 'axis', 'F': 1, 'axis': axis, 'lat': lname, 'M': M.tolist()})
            out.append({'kind': 'axis', 'F': 2, 'axis': axis, 'lat': lname, 'M': M.tolist(), 'near': tier == 'thorough' or lname in ('cubic6', 'tric-pmg-default', 'tric-vesta-left-handed')})
            if tier == 'quick' and lname not in ('cubic6', 'tric-pmg-default', 'ortho567-axes-permuted'):
                continue
            for first in range(0, len(FACE), 3):
                out.append({'kind': 'axis', 'F': 3, 'axis': axis, 'lat': lname, 'M': M.tolist(), 'first': [first, first + 3], 'n3': 2 if tier == 'quick' else 6})
        for k in range(5):
            out.append({'kind': 'allaxes', 'lat': lname, 'M': M.tolist(), 'k': k})
        out.append({'kind': 'twoatoms', 'lat': lname, 'M': M.tolist()})
    if tier == 'thorough':
        for lname, M in lat_list('quick', seed)[:3]:
            for axis in range(3):
                for a in range(0, 9):
                    out.append({'kind': 'axis4', 'axis': axis, 'lat': lname, 'M': M.tolist(), 'a': a})
    return out


def circ_close(a, b, tol=1e-12):
    r = np.asarray(a, dtype=float) - np.asarray(b, dtype=float)
    return np.all(np.abs(r - np.round(r)) < tol)


def evaluate(x, M, shift=None, volume=True, deep=True):
    """x: (T, N, 3) raw fractional input. -> (viols, key)."""
    from gemdat.volume import trajectory_to_volume

    viols = []
    M = np.asarray(M)
    T, N = x.shape[:2]
    species = ['Li'] * N
    x_in = x.copy()
    if int(abs(x[..., 0].sum()) * 1e6) % 3 == 1:
        x_in = np.asfortranarray(x_in)  # the memory layout of the caller's array is free
    traj = concretise.make_trajectory(x_in, species, M, time_step=1e-15)
    try:
        p1 = np.array(traj.positions)
        p2 = np.array(traj.positions)
        d = np.array(traj.displacements)
        cum = np.array(traj.cumulative_displacements)
        dist = np.array(traj.distances_from_base_position())
        p3 = np.array(traj.positions)
    except Exception as e:  # noqa: BLE001
        return [(f'raise-{type(e).__name__}', str(e))], ('raise',)
    if not np.array_equal(x_in, x, equal_nan=True):
        viols.append(('input-coordinates-modified', f'{x.reshape(-1, 3).tolist()} -> {x_in.reshape(-1, 3).tolist()}'))
    for name, p in (('first-read', p1), ('second-read', p2), ('after-mode-switch', p3)):
        if not (np.all(p >= 0) and np.all(p < 1)):
            bad = p[(p < 0) | (p >= 1)]
            viols.append((f'position-outside-half-open-cell-{name}', f'values {bad[:4].tolist()} input {x.reshape(-1, 3).tolist()}'))
        if not circ_close(p, x):
            viols.append((f'position-not-congruent-to-input-{name}', f'pos={p.reshape(-1, 3).tolist()} input={x.reshape(-1, 3).tolist()}'))
    if np.any(d[0] != 0):
        viols.append(('first-displacement-not-zero', f'{d[0].tolist()}'))
    if np.any(np.abs(d) > 0.5 + 1e-12):
        viols.append(('displacement-not-minimum-image', f'{d.reshape(-1, 3).tolist()}'))
    steps = np.diff(x, axis=0)
    if T > 1 and not circ_close(d[1:], steps):
        viols.append(('displacement-not-congruent-to-step', f'd={d[1:].reshape(-1, 3).tolist()} steps={steps.reshape(-1, 3).tolist()}'))
    if not circ_close(x[0][None] + np.cumsum(d, axis=0), x):
        viols.append(('running-sum-does-not-reproduce-frames', f'd={d.reshape(-1, 3).tolist()}'))
    if not np.allclose(cum, np.cumsum(d, axis=0), atol=1e-12):
        viols.append(('cumulative-displacements-not-running-sum', ''))
    own = np.linalg.norm(cum @ M, axis=-1).T  # (N, T)
    if dist.shape != own.shape or not np.allclose(dist, own, rtol=1e-9, atol=1e-9):
        viols.append(('distance-not-cartesian-length', f'got={dist.tolist()} own={own.tolist()}'))
    if volume:
        try:
            vol = trajectory_to_volume(traj, resolution=1.0)
            if int(vol.data.sum()) != T * N:
                viols.append(('volume-loses-samples', f'{int(vol.data.sum())} != {T * N}'))
        except AssertionError:
            viols.append(('volume-precondition-fails', f'positions={np.array(traj.positions).reshape(-1, 3).tolist()}'))
        except Exception as e:  # noqa: BLE001
            viols.append((f'volume-raise-{type(e).__name__}', str(e)))
        try:
            p4 = np.array(traj.positions)
            if p4.shape != p3.shape or not np.array_equal(p4, p3):
                viols.append(('positions-changed-by-taking-a-volume', f'{p3.reshape(-1, 3).tolist()} -> {p4.reshape(-1, 3).tolist()}'))
        except Exception as e:  # noqa: BLE001
            viols.append((f'positions-after-volume-raise-{type(e).__name__}', str(e)))
    key = (p1.tobytes(), d.tobytes())
    if T >= 2:
        try:
            tsl = concretise.make_trajectory(x.copy(), species, M, time_step=1e-15)
            tsl.displacements
            for k0 in (1, 2):
                if k0 >= T:
                    break
                tsl.displacements
                part = np.array(tsl[k0:].positions)
                if part.shape != x[k0:].shape or not circ_close(part, x[k0:]):
                    viols.append(('slice-of-displacement-mode-trajectory-wrong', f'[{k0}:] got {part.reshape(-1, 3).tolist()} expected {np.mod(x[k0:], 1).reshape(-1, 3).tolist()}'))
                    break
        except Exception as e:  # noqa: BLE001
            viols.append((f'slice-raise-{type(e).__name__}', str(e)))
    if deep and T >= 2:
        # a queried object that is then extended in place must answer for the whole trajectory
        try:
            ta = concretise.make_trajectory(x[:1].copy(), species, M, time_step=1e-15)
            tb = concretise.make_trajectory(x[1:].copy(), species, M, time_step=1e-15)
            ta.cumulative_displacements
            ta.distances_from_base_position()
            ta.extend(tb)
            cum_e = np.array(ta.cumulative_displacements)
            if cum_e.shape != cum.shape or not np.allclose(cum_e, cum, atol=1e-9):
                viols.append(('cumulative-displacements-stale-after-extend', f'shape {cum_e.shape} vs {cum.shape}'))
        except Exception as e:  # noqa: BLE001
            viols.append((f'extend-raise-{type(e).__name__}', str(e)))
    if T >= 2 and (volume or deep) and not np.any(np.abs((steps - np.floor(steps)) - 0.5) < 1e-9):
        # the same trajectory handed over as per-step displacements (the public displacement-mode constructor, which is
        # also what drift correction returns): what it reports before anything converts it to positions
        dref = np.concatenate([np.zeros_like(x[:1]), steps - np.round(steps)], axis=0)
        try:
            td = concretise.make_trajectory(dref.copy(), species, M, time_step=1e-15, coords_are_displacement=True, base_positions=np.mod(x[0], 1.0))
            dd = np.array(td.displacements)
            cd = np.array(td.cumulative_displacements)
            dist_d = np.array(td.distances_from_base_position())
            pd_ = np.array(td.positions)
            dd2 = np.array(td.displacements)
            if dd.shape != dref.shape or not np.allclose(dd, dref, atol=1e-12):
                viols.append(('displacement-mode-trajectory-reports-other-displacements', f'given {dref.reshape(-1, 3).tolist()} reported {dd.reshape(-1, 3).tolist()}'))
            elif not np.allclose(cd, np.cumsum(dref, axis=0), atol=1e-12) or not np.allclose(dist_d, own, rtol=1e-9, atol=1e-9):
                viols.append(('displacement-mode-trajectory-cumulative-or-distance-wrong', ''))
            if not circ_close(pd_, x) or not (np.all(pd_ >= 0) and np.all(pd_ < 1)):
                viols.append(('displacement-mode-trajectory-positions-wrong', f'{pd_.reshape(-1, 3).tolist()} input {x.reshape(-1, 3).tolist()}'))
            if not np.allclose(dd2, dref, atol=1e-12):
                viols.append(('displacement-mode-trajectory-displacements-change-after-reading-positions', ''))
        except Exception as e:  # noqa: BLE001
            viols.append((f'displacement-mode-trajectory-raise-{type(e).__name__}', str(e)))
    if shift is not None:
        fr = steps - np.floor(steps)
        tie = np.any(np.abs(fr - 0.5) < 1e-9)
        if not tie:
            y = x + shift
            t2 = concretise.make_trajectory(y, species, M, time_step=1e-15)
            try:
                cum2 = np.array(t2.cumulative_displacements)
                dist2 = np.array(t2.distances_from_base_position())
                if not np.allclose(cum2, cum, atol=1e-9):
                    viols.append(('cumulative-displacements-change-under-lattice-shift', f'shift={shift.reshape(-1, 3).tolist()} a={cum.reshape(-1, 3).tolist()} b={cum2.reshape(-1, 3).tolist()}'))
                if not np.allclose(dist2, dist, atol=1e-9):
                    viols.append(('distances-change-under-lattice-shift', f'shift={shift.reshape(-1, 3).tolist()}'))
                if T >= 2 and deep:
                    m1 = np.asarray(traj.mean_squared_displacement())
                    m2 = np.asarray(t2.mean_squared_displacement())
                    if not np.allclose(m1, m2, atol=1e-9):
                        viols.append(('msd-changes-under-lattice-shift', f'shift={shift.reshape(-1, 3).tolist()}'))
                    D1 = float(traj.metrics().tracer_diffusivity(dimensions=3))
                    D2 = float(t2.metrics().tracer_diffusivity(dimensions=3))
                    scale = 1e-20 / (6 * T * 1e-15) * max(1.0, float(np.max(dist)) ** 2)
                    if abs(D1 - D2) > 1e-9 * scale:
                        viols.append(('tracer-diffusivity-changes-under-lattice-shift', f'{D1} vs {D2}'))
            except Exception as e:  # noqa: BLE001
                viols.append((f'shifted-raise-{type(e).__name__}', str(e)))
            return viols, key, 'sharp'
        return viols, key, 'tie'
    return viols, key, 'noshift'


def axis_history(vals, axis):
    T = len(vals)
    x = np.zeros((T, 1, 3))
    others = [a for a in range(3) if a != axis]
    x[:, 0, others[0]] = OTHER[0]
    x[:, 0, others[1]] = OTHER[1]
    x[:, 0, axis] = vals
    return x


def shift_array(pattern, axis, T):
    s = np.zeros((T, 1, 3))
    s[:, 0, axis] = pattern
    # a fixed non-zero pattern on the other axes as well
    others = [a for a in range(3) if a != axis]
    s[:, 0, others[0]] = [(2 * t) % 3 - 1 for t in range(T)]
    return s


def run_shard(shard) -> Result:
    res = Result()
    M = np.array(shard['M'])

    def record(viols, key, mode, case):
        res.evals += 1
        res.stats[f'shift_{mode}'] += 1
        res.outcome(hash(key))
        for kind, detail in viols:
            res.violation(kind, case, detail)

    if shard['kind'] == 'axis':
        F, axis = shard['F'], shard['axis']
        ALPHA = FACE + NEAR if (F <= 2 and (shard.get('near', True))) else FACE
        firsts = range(*shard['first']) if 'first' in shard else range(len(ALPHA))
        for i0 in firsts:
            if i0 >= len(ALPHA):
                break
            for rest in itertools.product(range(len(ALPHA)), repeat=F - 1):
                vals = [ALPHA[i0]] + [ALPHA[i] for i in rest]
                x = axis_history(vals, axis)
                patterns = list(itertools.product(SHIFTS, repeat=F)) if F <= 2 else SHIFT3[: shard.get('n3', 6)]
                if F == 2 and (i0 >= len(FACE) or rest[0] >= len(FACE)):
                    patterns = patterns[::6]  # histories with a NEAR value: 5 of the 25 shift patterns
                for k, pat in enumerate(patterns):
                    sh = shift_array(pat, axis, F)
                    viols, key, mode = evaluate(x, M, sh, volume=(k == 0), deep=(k in (1, 7)))
                    record(viols, key, mode, {'coords': x.tolist(), 'M': M.tolist(), 'shift': sh.tolist()})
        res.sample({'history_on_axis': shard['axis'], 'values': [FACE[0]] * F, 'lattice': shard['lat'], 'shift_patterns': 'all of {-2,-1,0,1,3}^F' if F <= 2 else SHIFT3})
    elif shard['kind'] == 'axis4':
        axis = shard['axis']
        sub = [0.0, -1e-17, 1 - 1e-16, 1.0, 0.5, 0.25, 0.9, -0.3, 1.6]
        for rest in itertools.product(sub, repeat=3):
            vals = [sub[shard['a']]] + list(rest)
            x = axis_history(vals, axis)
            sh = shift_array((1, -2, 0, 3), axis, 4)
            viols, key, mode = evaluate(x, M, sh, volume=False)
            record(viols, key, mode, {'coords': x.tolist(), 'M': M.tolist(), 'shift': sh.tolist()})
        res.sample({'four_frame_history_axis': axis, 'first_value': sub[shard['a']]})
    elif shard['kind'] == 'allaxes':
        v0 = SMALL5[shard['k']]
        for rest in itertools.product(SMALL5, repeat=5):
            c = [v0] + list(rest)
            x = np.array(c).reshape(2, 1, 3)
            sh = np.array([[[1, 0, -2]], [[0, 3, 1]]], dtype=float)
            viols, key, mode = evaluate(x, M, sh, volume=False)
            record(viols, key, mode, {'coords': x.tolist(), 'M': M.tolist(), 'shift': sh.tolist()})
        res.sample({'all_axes_two_frames_first_value': v0, 'lattice': shard['lat']})
    else:  # two atoms on different tracks, three frames
        vals = [0.1, 0.9, float(np.nextafter(0.5, 0)), 1.6]
        for a in itertools.product(vals, repeat=3):
            for b in itertools.product(vals[:3], repeat=3):
                x = np.zeros((3, 2, 3))
                x[:, 0, 0] = a
                x[:, 0, 1] = 0.2
                x[:, 1, 2] = b
                x[:, 1, 0] = 0.7
                sh = np.zeros((3, 2, 3))
                sh[1, 0, 0] = 1
                sh[2, 1, 2] = -2
                sh[0, 1, 1] = 3
                viols, key, mode = evaluate(x, M, sh, volume=False)
                record(viols, key, mode, {'coords': x.tolist(), 'M': M.tolist(), 'shift': sh.tolist()})
        res.sample({'two_atoms_three_frames': True, 'lattice': shard['lat']})
    return res


def finalize(total, tier):
    from ..core import HarnessError

    if total.stats['shift_sharp'] == 0:
        raise HarnessError('no shift-invariance evaluation judged sharply')


def replay(case):
    x = np.array(case['coords'], dtype=float)
    out = evaluate(x, np.array(case['M']), np.array(case['shift'], dtype=float) if case.get('shift') is not None else None)
    return [{'kind': k, 'detail': d} for k, d in out[0]]
