"""C03 — transition events are a faithful, complete change-log of the site states.

Engine E1 (state level): every trace of the ion-hopping model up to the bound is replayed through
the real `_calculate_transition_events`, `Transitions.states_prev/next` and compared with the
reference change-log of gvmc.ref.hop.
"""

from __future__ import annotations

import itertools

import numpy as np

from .. import impl, traces
from ..core import Result
from ..ref import hop

ID = 'C03'
LEVEL = 'model_checking'
RULE = (
    'all traces of the hopping model (symbols: none, (site,inner), (site,shell)) for the listed '
    '(atoms, sites, frames<=L) bounds; each trace is one execution of the real event builder; '
    'inputs unchanged and build repeatable; states/events re-read after the prev/next views; distinct = distinct event tables observed'
    '; event table unchanged by split(2); end-to-end from geometry: every history of (1 atom, 3 sites, <=3 frames) and (2 atoms, 2 sites, 2 frames) with shells concretised and built with float / per-label radii; 33000-frame history: event rows against the reference'
)
LEVEL_TEXT = (
    'Exhaustive exploration of every site/inner-site history of the hopping model up to the frame '
    'bound (1 atom x 3 sites x 7 frames, 2x2x4, 3x2x3 in the thorough tier): each history is run '
    'through the real event builder and the prev/next views and compared row-for-row with a '
    'reference change-log. Complete within the bound; says nothing about longer histories except '
    'through the small-scope argument (the builder is per-atom and only compares adjacent frames).'
)
LEVEL_NOTE = 'Trusted: the 60-line reference model gvmc/ref/hop.py; numpy/pandas. Bound: see BOUNDS in gvmc/checks/c03.py.'
TECHNIQUE = 'bounded-exhaustive trace enumeration (stateless model checking of the real event builder against a reference model)'
ASSUMPTIONS = [
    'state arrays are int arrays with -1 = no site and inner state in {-1, outer state}',
    'histories with no change at all (outer and inner constant for every atom) are outside the statement',
]

BOUNDS = {
    'quick': [dict(A=1, S=3, Lmax=5), dict(A=2, S=2, Lmax=3), dict(A=1, S=1, Lmax=7)],
    'thorough': [dict(A=1, S=3, Lmax=7), dict(A=2, S=2, Lmax=4), dict(A=3, S=2, Lmax=3), dict(A=1, S=1, Lmax=10), dict(A=1, S=4, Lmax=5)],
}


def shards(tier, seed):
    out = traces.make_shards(BOUNDS[tier], 2500 if tier == 'quick' else 20000)
    for L in (130, 300, 33000):
        out.append({'long': True, 'L': L})
    # end to end: the event table that comes with real site states (incl. overlapping site spheres, inner fraction 0.5)
    out.append({'e2e': True, 'tier': tier, 'seed': seed})
    # end to end from geometry: every small history (shell-only visits included) concretised as a real trajectory and
    # pushed through transitions_between_sites with inner fraction 0.5 (float radius and per-label radii)
    for sh in traces.make_shards(E2E_TRACES[tier], 150 if tier == 'quick' else 600):
        sh['e2e_trace'] = True
        out.append(sh)
    return out


E2E_TRACES = {'quick': [dict(A=1, S=3, Lmax=3), dict(A=2, S=2, Lmin=2, Lmax=2)], 'thorough': [dict(A=1, S=3, Lmax=4), dict(A=2, S=2, Lmax=3)]}


def check_e2e_trace(trace, S):
    from .. import concretise
    from ..ref import geom
    from .c04 import E2E_SITES

    ref_rows = hop.change_log(trace)
    if not ref_rows:
        return [], ('nochange',)
    Mx = geom.from_parameters(5, 6, 7, 70, 80, 100)
    A = len(trace[0])
    try:
        coords = concretise.concretise(trace, Mx, np.array(E2E_SITES[:S]), [0.6] * S, 0.5, framework=[(0.31, 0.29, 0.33), (0.8, 0.15, 0.2)])
    except concretise.Unrealisable:
        return [], ('unrealisable',)
    traj = concretise.make_trajectory(coords, ['Li'] * A + ['S', 'P'], Mx)
    labels = ['A', 'B', 'A'][:S]
    sites = concretise.make_sites(np.array(E2E_SITES[:S]), labels, Mx)
    viols = []
    o, i = hop.state_arrays(trace)
    for rname, rad in (('float', 0.6), ('per-label', {'B': 0.6, 'A': 0.6})):
        try:
            tr = traj.transitions_between_sites(sites, 'Li', site_radius=rad if not isinstance(rad, dict) else dict(rad), site_inner_fraction=0.5)
        except Exception as e:  # noqa: BLE001
            shell_only = all(x % 2 == 0 for row in trace for x in row)
            viols.append((f'building-from-a-trajectory-raises-{type(e).__name__}' + ('-no-atom-ever-in-an-inner-site' if shell_only else ''), f'{rname} radius: {e}'))
            continue
        if np.asarray(tr.states).tolist() != o or np.asarray(tr.inner_states).tolist() != i:
            continue  # site assignment is C02's business; the table is compared with the states it was built from in the e2e shard
        rows = impl.event_rows(tr.events)
        if sorted(rows) != sorted(ref_rows):
            viols.append(('events-from-a-trajectory-are-not-the-change-log', f'{rname} radius: got {sorted(rows)} expected {sorted(ref_rows)}'))
    return viols, ('e2e-trace', tuple(ref_rows))


def run_long(L, res):
    """Histories longer than 127 / 32767 frames with the states held as int8 / int16 / int64 arrays."""
    from gemdat.utils import bfill, ffill

    pattern = [0, 1, 1, 0, 0, 3, 0, 1, 3, 3, 0, 0, 0, 1]
    trace = [[pattern[(t * (1 + t // 97)) % len(pattern)]] for t in range(L)]
    rp, rn = hop.prev_next(trace)
    o, i = hop.state_arrays(trace)
    for dt in (np.int8, np.int16, np.int64):
        if L > 32767 and dt == np.int8:
            continue
        case = {'long_L': L, 'dtype': np.dtype(dt).name}
        st = np.array(o, dtype=dt)
        res.evals += 1
        res.traces += 1
        try:
            df = impl.real_events(trace)
            if dt == np.int64 and impl.event_rows(df) != hop.change_log(trace):
                got_rows = impl.event_rows(df)
                bad = next((k for k, (a, b) in enumerate(zip(got_rows, hop.change_log(trace))) if a != b), min(len(got_rows), len(hop.change_log(trace))))
                res.violation('events-wrong-for-long-history', case, f'{len(got_rows)} rows; first difference at row {bad}: {got_rows[bad] if bad < len(got_rows) else None}')
            from gemdat.transitions import Transitions

            tr = Transitions(trajectory=None, diff_trajectory=None, sites=impl.dummy_sites(2), events=df, states=st, inner_states=np.array(i, dtype=dt))
            p, n = np.asarray(tr.states_prev()), np.asarray(tr.states_next())
            if not np.array_equal(p, np.array(rp)) or not np.array_equal(n, np.array(rn)):
                res.violation('states-prev-next-wrong-for-long-history', case, f'first mismatch at frame {int(np.argmax(p[:, 0] != np.array(rp)[:, 0]))}')
            a = st.T.copy()
            if not np.array_equal(ffill(a, fill_val=-1), np.array(rp).T) or not np.array_equal(bfill(a, fill_val=-1), np.array(rn).T):
                res.violation('ffill-bfill-wrong-for-long-rows', case, '')
            res.outcome(('long', L, np.dtype(dt).name, int(p.sum())))
        except Exception as e:  # noqa: BLE001
            res.violation(f'long-history-raise-{type(e).__name__}', case, str(e))
    res.states += L
    res.transitions += L


def check_trace(trace, S, res: Result | None = None):
    """-> list of (kind, detail). Evaluates one trace on the real code."""
    viols = []
    ref_rows = hop.change_log(trace)
    case = {'trace': trace, 'n_sites': S}
    if not ref_rows:
        return viols, ('nochange',)
    try:
        st_in, in_in = impl.arrays(trace)
        st0, in0 = st_in.copy(), in_in.copy()
        from gemdat.transitions import _calculate_transition_events

        df = _calculate_transition_events(atom_sites=st_in, atom_inner_sites=in_in)
        df2 = _calculate_transition_events(atom_sites=st_in, atom_inner_sites=in_in)
        if not (np.array_equal(st_in, st0) and np.array_equal(in_in, in0)):
            viols.append(('event-builder-modifies-its-input', ''))
        if impl.event_rows(df2) != impl.event_rows(df):
            viols.append(('event-builder-not-repeatable', ''))
    except Exception as e:  # noqa: BLE001 - the property says building never fails
        only_inner = not hop.outer_change_times(trace)
        kind = f'events-raise-{type(e).__name__}' + ('-inner-only-history' if only_inner else '')
        viols.append((kind, f'{type(e).__name__}: {e}; expected rows {ref_rows}'))
        return viols, ('raise', type(e).__name__)
    rows = impl.event_rows(df)
    key = tuple(rows)
    if len(set(rows)) != len(rows):
        viols.append(('events-duplicate-row', f'rows={rows}'))
    got, exp = set(rows), set(ref_rows)
    if got != exp:
        missing = sorted(exp - got)
        extra = sorted(got - exp)
        if missing:
            oc = set(hop.outer_change_times(trace))
            site_missing = [r for r in missing if (r[0], r[5]) in oc]
            if site_missing:
                viols.append(('events-missing-site-change', f'missing={site_missing} got={rows}'))
            else:
                viols.append(('events-missing-inner-change', f'missing={missing} got={rows}'))
        if extra:
            viols.append(('events-spurious-or-wrong-row', f'extra={extra} expected={ref_rows}'))
    # replay of the rows reconstructs both histories (independent of the set comparison above)
    o, i = hop.state_arrays(trace)
    L, A = len(trace), len(trace[0])
    for a in range(A):
        cur_o, cur_i = o[0][a], i[0][a]
        mine = sorted((r for r in rows if r[0] == a), key=lambda r: r[5])
        ok = True
        k = 0
        for t in range(L - 1):
            if k < len(mine) and mine[k][5] == t:
                if (mine[k][1], mine[k][3]) != (cur_o, cur_i):
                    ok = False
                cur_o, cur_i = mine[k][2], mine[k][4]
                k += 1
            if (cur_o, cur_i) != (o[t + 1][a], i[t + 1][a]):
                ok = False
        if not ok and not viols:
            viols.append(('events-replay-mismatch', f'atom {a} rows={mine}'))
    # previous / next views
    try:
        tr = impl.make_transitions(trace, S, events=df)
        p = tr.states_prev()
        n = tr.states_next()
        rp, rn = hop.prev_next(trace)
        if not np.array_equal(np.asarray(p), np.array(rp)):
            viols.append(('states-prev-wrong', f'got={np.asarray(p).tolist()} expected={rp}'))
        if not np.array_equal(np.asarray(n), np.array(rn)):
            viols.append(('states-next-wrong', f'got={np.asarray(n).tolist()} expected={rn}'))
        o_ref, i_ref = hop.state_arrays(trace)
        if not np.array_equal(np.asarray(tr.states), np.array(o_ref)) or impl.event_rows(tr.events) != rows:
            viols.append(('views-modify-states-or-events', ''))
    except Exception as e:  # noqa: BLE001
        viols.append((f'prev-next-raise-{type(e).__name__}', str(e)))
    # the table of an object that has been used for statistics (split into parts) is still the change-log
    if L >= 4 and len(rows) >= 2:
        try:
            from .. import concretise

            M6 = np.eye(3) * 6.0
            trs = impl.make_transitions(trace, S, events=df, trajectory=concretise.vib_traj(A + 2, L, M6, 1e-15, species=['Li'] * A + ['S', 'P']),
                                        diff_trajectory=concretise.vib_traj(A, L, M6, 1e-15))
            try:
                trs.split(2)
            except Exception:  # noqa: BLE001  (what split returns is C19's business)
                pass
            after = impl.event_rows(trs.events)
            if after != rows:
                viols.append(('event-table-of-the-whole-changed-by-splitting-it', f'before={rows} after={after}'))
        except Exception as e:  # noqa: BLE001
            viols.append((f'events-after-split-raise-{type(e).__name__}', str(e)))
    return viols, key


def run_shard(shard) -> Result:
    res = Result()
    if shard.get('e2e'):
        from . import c02

        n = 0
        for sc in c02.scenarios(shard['tier'], shard['seed']):
            if sc['mode'] not in ('float-overlap', 'dict-different') or sc['f'] != 0.5 or sc['layout'] != 0:
                continue
            try:
                viols = c02.eval_scenario(sc)[0]
            except Exception:  # noqa: BLE001
                continue
            n += 1
            res.evals += 1
            res.traces += 1
            res.outcome(('e2e', sc['lat'], sc['mode'], n))
            for kind, detail in viols:
                if kind.startswith('events-'):
                    res.violation(kind, {'e2e_scenario': sc}, detail)
        res.states += n
        res.transitions += n
        res.sample({'end_to_end_scenarios': n})
        return res
    if shard.get('e2e_trace'):
        for trace in traces.iter_shard(shard):
            impl.clear_weak_caches()
            viols, key = check_e2e_trace(trace, shard['S'])
            res.evals += 1
            res.traces += 1
            res.outcome(hash(key))
            for kind, detail in viols:
                res.violation(kind, {'trace': trace, 'n_sites': shard['S'], 'e2e_trace': True}, detail)
        res.states += traces.tree_nodes(shard)
        res.transitions += traces.tree_nodes(shard)
        res.stats['e2e_traces_from_geometry'] += res.traces
        return res
    if shard.get('long'):
        run_long(shard['L'], res)
        res.sample({'long_history_frames': shard['L'], 'dtypes': ['int8', 'int16', 'int64']})
        return res
    S = shard['S']
    impl.clear_weak_caches()
    for n, trace in enumerate(traces.iter_shard(shard)):
        viols, key = check_trace(trace, S)
        res.evals += 1
        res.traces += 1
        res.outcome(hash(key))
        for kind, detail in viols:
            res.violation(kind, {'trace': trace, 'n_sites': S}, detail)
        if not res.samples and key and isinstance(key[0], tuple) and len(key) >= 2:
            res.sample({'trace': trace, 'n_sites': S, 'events_or_outcome': [list(k) if isinstance(k, tuple) else k for k in key]})
        if n % 4096 == 0:
            impl.clear_weak_caches()
    res.states += traces.tree_nodes(shard)
    res.transitions += traces.tree_nodes(shard)
    res.stats[f'traces_A{shard["A"]}_S{S}_L{shard["L"]}'] += res.evals
    return res


def replay(case):
    if case.get('e2e_trace'):
        return [{'kind': k, 'detail': d} for k, d in check_e2e_trace(case['trace'], case['n_sites'])[0]]
    if 'e2e_scenario' in case:
        from . import c02

        return [{'kind': k, 'detail': d} for k, d in c02.eval_scenario(case['e2e_scenario'])[0] if k.startswith('events-')]
    if 'long_L' in case:
        r = Result()
        run_long(case['long_L'], r)
        return [{'kind': v['kind'], 'detail': v['detail']} for v in r.viols]
    viols, _ = check_trace(case['trace'], case['n_sites'])
    return [{'kind': k, 'detail': d} for k, d in viols]
