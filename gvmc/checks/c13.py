"""C13 — drift correction removes exactly the reference-frame motion.

Engine E1 (input-shape mode): 5 atoms (Li x2, S x2, P x1, given as Species and as Element objects),
every assignment of track patterns to the atoms, every rigid drift signal of the alphabet, every
selection form, every lattice; the real drift()/apply_drift_correction() are compared with the
definition and with each other (metamorphic clauses of the statement).
"""

from __future__ import annotations

import itertools

import numpy as np

from .. import alphabets, concretise
from ..core import Result

ID = 'C13'
LEVEL = 'exploration'
RULE = (
    'atoms Li,S,Li,S,P and Si,S,Si,S,P (floating symbol contains a reference symbol); per-atom step pattern from a table of K patterns (steps in {-0.2,0,0.15} on varying axes), '
    'all K^5 assignments; rigid drift signals from a table (steps in {-0.2,0,0.15} on every axis); selection forms '
    '{none, fixed "S", ["S"], ["S","P"], "P", set, tuple, list with repeated names, floating str, [list], [list,"P"], set, frozenset, tuple}; source in position or displacement mode, correction applied again immediately; species as Species / Element / Species with oxidation state; '
    'LATTICES; frames 4 (quick) / 4-5 (thorough); distinct = distinct corrected displacement arrays'
    '; drift set includes a closed loop, pattern set an out-and-back atom; six time steps (bit-for-bit comparison, also after a second correction)'
)
LEVEL_TEXT = (
    'Bounded-exhaustive over track assignments, drift signals, selection forms, species object types and '
    'lattices: zero residual drift of the reference set per frame, unchanged frame 0/species/lattice/time '
    'step/metadata, idempotence, invariance to an injected rigid drift, and floating == complementary fixed '
    'are checked on every evaluation.'
)
LEVEL_NOTE = 'Trusted: numpy. Precondition enforced by construction: |step + drift| < 1/2 - 0.05, so minimum images do not change. Tolerance 1e-12 (fractional).'
TECHNIQUE = 'bounded-exhaustive input-shape enumeration with definitional and metamorphic oracles'
ASSUMPTIONS = ['all per-frame steps incl. injected drift stay below half a cell']

SYMS = ['Li', 'S', 'Li', 'S', 'P']
# second layout: the floating symbol 'Si' CONTAINS the symbol of a reference species ('S')
LAYOUTS = {'Li': ['Li', 'S', 'Li', 'S', 'P'], 'Si': ['Si', 'S', 'Si', 'S', 'P']}
PATTERNS = [
    [(0, 0.15), (1, -0.2), (2, 0.0), (0, 0.15)],
    [(1, 0.15), (1, -0.15), (0, 0.0), (2, 0.0)],  # out and back: the atom is at its start again from the third frame on
    [(1, 0.0), (1, 0.15), (0, -0.2), (2, -0.2)],
    [(0, 0.0), (0, 0.0), (0, 0.0), (0, 0.0)],
    [(2, -0.2), (2, -0.2), (2, 0.15), (1, 0.15)],  # (not used: the tiers take the first 3 / 4 patterns)
]
DRIFTS = [
    [(0.0, 0.0, 0.0)] * 4,
    [(0.15, 0.0, -0.2), (0.0, 0.15, 0.15), (-0.15, -0.15, 0.05), (0.0, 0.0, 0.0)],  # closed loop: the frame is back at its start in the last frame(s)
    [(0.15, 0.0, -0.2), (0.15, 0.15, 0.0), (-0.2, 0.0, 0.15), (0.0, -0.2, 0.15)],
    [(-0.2, -0.2, -0.2), (0.0, 0.15, 0.0), (0.15, -0.2, 0.15), (0.15, 0.15, 0.15)],
    [(0.0, 0.0, 0.15), (0.0, 0.0, 0.15), (0.0, 0.0, 0.15), (0.0, 0.0, 0.15)],
]
TIME_STEPS = [2e-15, 1.5e-15, 1e-16, 3e-15, 7.5e-16, 1.2e-15]  # the corrected trajectory keeps the time step bit for bit


def forms(fl):
    return [
        ('none', {}, [0, 1, 2, 3, 4]),
        ('fixed-S', {'fixed_species': 'S'}, [1, 3]),
        ('fixed-[S]', {'fixed_species': ['S']}, [1, 3]),
        ('fixed-[S,P]', {'fixed_species': ['S', 'P']}, [1, 3, 4]),
        ('fixed-P', {'fixed_species': 'P'}, [4]),
        ('floating-str', {'floating_species': fl}, [1, 3, 4]),
        ('floating-[list]', {'floating_species': [fl]}, [1, 3, 4]),
        ('floating-[list,P]', {'floating_species': [fl, 'P']}, [1, 3]),
        ('floating-{set}', {'floating_species': {fl}}, [1, 3, 4]),
        ('floating-frozenset', {'floating_species': frozenset([fl, 'P'])}, [1, 3]),
        ('floating-(tuple)', {'floating_species': (fl,)}, [1, 3, 4]),
        ('fixed-{set}', {'fixed_species': {'S', 'P'}}, [1, 3, 4]),
        ('fixed-[repeated names]', {'fixed_species': ['S', 'P', 'S']}, [1, 3, 4]),
        ('fixed-(tuple)', {'fixed_species': ('S',)}, [1, 3]),
        ('fixed-[] (empty = not given)', {'fixed_species': []}, [0, 1, 2, 3, 4]),
        ('fixed-() with floating', {'fixed_species': (), 'floating_species': fl}, [1, 3, 4]),
    ]


FORMS = forms('Li')


def shards(tier, seed):
    out = []
    K = 3 if tier == 'quick' else 4
    lats = alphabets.lattices(tier, seed)
    if tier == 'quick':
        lats = [l for l in lats if l[0] in ('cubic6', 'ortho567-axes-permuted', 'tric-pmg-default', 'hex-a5-c7')]
    for lname, M in lats:
        for cls in ('Species', 'Element', 'SpeciesOx'):
            for p0 in range(K):
                for T in ([4] if tier == 'quick' else [4, 5]):
                    out.append({'lat': lname, 'M': M.tolist(), 'cls': cls, 'K': K, 'p0': p0, 'T': T, 'nd': 3 if tier == 'quick' else 5, 'layout': 'Li' if (p0 + T) % 2 == 0 or tier == 'thorough' else 'Si'})
                    if tier == 'thorough':
                        out.append(dict(out[-1], layout='Si'))
    return out


def build(assign, drift_idx, T, M, cls):
    steps = np.zeros((T - 1, 5, 3))
    for a, p in enumerate(assign):
        for t in range(T - 1):
            ax, v = PATTERNS[p][t]
            steps[t, a, (ax + a) % 3] += v * (0.5 if a == 4 else 1.0)
    x0 = np.array([[0.02, 0.5, 0.97], [0.3, 0.3, 0.3], [0.6, 0.99, 0.1], [0.8, 0.2, 0.55], [0.5, 0.7, 0.01]])
    base = np.concatenate([x0[None], x0[None] + np.cumsum(steps, axis=0)], axis=0)
    dr = np.array(DRIFTS[drift_idx][: T - 1])
    U = np.concatenate([np.zeros((1, 3)), np.cumsum(dr, axis=0)], axis=0)[:, None, :]
    return base, base + U


def circ(a, b, tol=1e-12):
    r = np.asarray(a) - np.asarray(b)
    return np.all(np.abs(r - np.round(r)) < tol)


def evaluate(assign, drift_idx, T, M, cls, layout='Li'):
    viols = []
    SYMS = LAYOUTS[layout]
    FORMS = forms(layout)
    M = np.asarray(M)
    x, xd = build(assign, drift_idx, T, M, cls)
    wrap = lambda c: np.mod(c, 1)  # noqa: E731
    keys = []
    for fi, (fname, kw, ref) in enumerate(FORMS):
        ts = TIME_STEPS[fi % len(TIME_STEPS)]
        t0 = concretise.make_trajectory(wrap(x), SYMS, M, time_step=ts, temperature=321.0, species_cls=cls)
        t1 = concretise.make_trajectory(wrap(xd), SYMS, M, time_step=ts, temperature=321.0, species_cls=cls)
        try:
            if fi % 2:
                t0.displacements  # the source may be in either internal representation when corrected
            c0 = t0.apply_drift_correction(**kw)
            c00_early = c0.apply_drift_correction(**kw)  # corrected again while still in displacement mode
            d0 = np.array(c0.displacements)
        except Exception as e:  # noqa: BLE001
            viols.append((f'correction-raise-{type(e).__name__}-{fname.split("-")[0]}-{cls}', f'{fname}: {e}'))
            continue
        if not np.all(np.isfinite(d0)):
            viols.append((f'corrected-displacements-not-finite-{fname.split("-")[0]}', f'{fname} cls={cls}'))
            continue
        keys.append(np.round(d0, 12).tobytes())
        res_drift = d0[:, ref, :].mean(axis=1)
        if np.max(np.abs(res_drift)) > 1e-12:
            viols.append(('residual-drift-of-reference-species-not-zero', f'{fname}: {res_drift.tolist()}'))
        p0 = np.array(c0.positions)
        if not circ(p0[0], x[0]):
            viols.append(('first-frame-changed', f'{fname}: {p0[0].tolist()} vs {np.mod(x[0], 1).tolist()}'))
        if [str(s) for s in c0.species] != [str(s) for s in t0.species] or type(c0.species[0]) is not type(t0.species[0]):
            viols.append(('species-changed', f'{fname}: {c0.species}'))
        if not np.allclose(np.asarray(c0.get_lattice().matrix), M, atol=1e-12) or c0.time_step != t0.time_step or c0.metadata != t0.metadata:
            viols.append(('lattice-timestep-or-metadata-changed', f'{fname}'))
        # own definition: corrected displacement = step - mean over reference of steps
        own = np.concatenate([np.zeros((1, 5, 3)), np.diff(x, axis=0)], axis=0)
        own = own - own[:, ref, :].mean(axis=1, keepdims=True)
        if not np.allclose(d0, own, atol=1e-12):
            viols.append(('corrected-displacements-differ-from-definition', f'{fname}: max dev {np.max(np.abs(d0 - own))}'))
        try:
            c00 = c0.apply_drift_correction(**kw)
            if not circ(np.array(c00.positions), p0) or not np.allclose(np.array(c00.displacements), d0, atol=1e-12):
                viols.append(('correction-not-idempotent', f'{fname}'))
            if c00.time_step != t0.time_step or c00_early.time_step != t0.time_step:
                viols.append(('lattice-timestep-or-metadata-changed', f'{fname}: time step after a second correction {c00.time_step!r} vs {t0.time_step!r}'))
            if not circ(np.array(c00_early.positions), p0) or not np.allclose(np.array(c00_early.displacements), d0, atol=1e-12):
                viols.append(('correction-not-idempotent-when-applied-to-displacement-mode-object', f'{fname}: first frame {np.array(c00_early.positions)[0].tolist()} vs {p0[0].tolist()}'))
            c1 = t1.apply_drift_correction(**kw)
            if not np.allclose(np.array(c1.displacements), d0, atol=1e-12):
                viols.append(('injected-rigid-drift-not-removed', f'{fname}: max dev {np.max(np.abs(np.array(c1.displacements) - d0))}'))
        except Exception as e:  # noqa: BLE001
            viols.append((f'second-correction-raise-{type(e).__name__}', f'{fname}: {e}'))
    # correcting an already corrected trajectory with respect to ANOTHER reference set
    try:
        tq = concretise.make_trajectory(wrap(x), SYMS, M, time_step=2e-15, species_cls=cls)
        c_all = tq.apply_drift_correction()
        c_s = c_all.apply_drift_correction(fixed_species='S')
        ds = np.array(c_s.displacements)
        if np.max(np.abs(ds[:, [1, 3], :].mean(axis=1))) > 1e-12:
            viols.append(('second-correction-with-other-reference-has-no-effect', f'{np.abs(ds[:, [1, 3], :].mean(axis=1)).max()}'))
    except Exception as e:  # noqa: BLE001
        viols.append((f'second-correction-other-reference-raise-{type(e).__name__}', str(e)))
    # a drift array handed out earlier belongs to the caller: editing it must not change later answers
    try:
        tq = concretise.make_trajectory(wrap(xd), SYMS, M, time_step=2e-15, species_cls=cls)
        d_first = tq.drift(fixed_species='S')
        keep = np.array(d_first)
        d_first *= 0.0
        d_again = np.array(tq.drift(fixed_species='S'))
        if not np.allclose(d_again, keep, atol=1e-12):
            viols.append(('drift-result-shared-with-earlier-callers', ''))
        tq.extend(concretise.make_trajectory(wrap(xd)[::-1].copy(), SYMS, M, time_step=2e-15, species_cls=cls))
        if np.asarray(tq.drift(fixed_species='S')).shape[0] != 2 * T:
            viols.append(('drift-stale-after-extend', ''))
    except Exception as e:  # noqa: BLE001
        viols.append((f'drift-history-raise-{type(e).__name__}', str(e)))
    # floating X == fixed (all other symbols)
    try:
        t0 = concretise.make_trajectory(wrap(xd), SYMS, M, time_step=2e-15, species_cls=cls)
        a = np.array(t0.drift(floating_species=layout))
        b = np.array(concretise.make_trajectory(wrap(xd), SYMS, M, time_step=2e-15, species_cls=cls).drift(fixed_species=['S', 'P']))
        if a.shape != b.shape or not np.allclose(a, b, atol=1e-12, equal_nan=False):
            viols.append(('floating-not-equivalent-to-complementary-fixed', f'{a.reshape(-1, 3).tolist()} vs {b.reshape(-1, 3).tolist()}'))
        if a.shape != (T, 1, 3):
            viols.append(('drift-shape-wrong', f'{a.shape}'))
    except Exception as e:  # noqa: BLE001
        viols.append((f'drift-raise-{type(e).__name__}-floating-{cls}', str(e)))
    return viols, tuple(keys)


def run_shard(shard) -> Result:
    res = Result()
    K = shard['K']
    M = np.array(shard['M'])
    for rest in itertools.product(range(K), repeat=4):
        assign = (shard['p0'],) + rest
        for di in range(shard['nd']):
            viols, key = evaluate(assign, di, shard['T'], M, shard['cls'], shard.get('layout', 'Li'))
            res.evals += 1
            res.outcome(hash(key))
            for kind, detail in viols:
                res.violation(kind, {'assign': list(assign), 'drift': di, 'T': shard['T'], 'M': M.tolist(), 'cls': shard['cls'], 'layout': shard.get('layout', 'Li')}, detail)
    res.sample({'track_assignment': list(assign), 'drift_signal': DRIFTS[di], 'species_as': shard['cls'], 'lattice': shard['lat'], 'forms': [f[0] for f in FORMS], 'species_layout': LAYOUTS[shard.get('layout', 'Li')]})
    return res


def replay(case):
    viols, _ = evaluate(tuple(case['assign']), case['drift'], case['T'], np.array(case['M']), case['cls'], case.get('layout', 'Li'))
    return [{'kind': k, 'detail': d} for k, d in viols]
