"""C05 — jump/occupancy bookkeeping conserves counts; jump diffusivity matches its formula.

Engine E1: every hopping-model trace up to the bound, under every (lattice, site set, label pattern)
configuration of the shard list, is replayed through the real Transitions/Jumps objects (state
level: real event builder, real jump classifier, real matrices/counters/graph/rates/diffusivity/
occupancy) and compared with loop counts and an own minimum-image distance.
"""

from __future__ import annotations

import math
from collections import Counter

import numpy as np

from .. import alphabets, concretise, impl, traces
from ..core import Result
from ..ref import geom, hop

ID = 'C05'
LEVEL = 'exploration'
RULE = (
    'all hopping-model traces for the listed (atoms, sites, frames) bounds x configurations '
    '(lattice, site set, label pattern, dimensions, time step); evaluation = one (trace, config) '
    'pushed through Transitions.matrix/occupancy/atom_locations and Jumps.matrix/_counter/counter/'
    'to_graph (default, thresholded, default again)/rates (also with minimal_residence=3)/jump_diffusivity, occupancy of the parts of split(2); distinct = distinct (config, jump matrix, transition matrix, occupancy) outcomes'
    '; one state-level case with 1100 sites (moves around indices 255/256, 999..1001 and the last site): transition and jump count matrices'
)
LEVEL_TEXT = (
    'Bounded-exhaustive: every site history up to the bound (incl. all events from/to "no site", '
    'inner-only events, two atoms) under every listed geometry/label configuration; all counters '
    'and aggregations of the real objects are compared with loop counts, the jump diffusivity with '
    'the formula evaluated on an independent minimum-image distance.'
)
LEVEL_NOTE = 'Trusted: gvmc/ref/hop.py, gvmc/ref/geom.py; CODATA constants typed literally. The attempt frequency used inside to_graph is taken from the real metrics (C14 covers it).'
TECHNIQUE = 'bounded-exhaustive trace enumeration x configuration alphabet against reference counts (explicit enumeration, no sampling)'
ASSUMPTIONS = [
    'occupancy clause is judged only for traces without two atoms on one site in the same frame (pymatgen rejects occupancy > 1)',
    'graph edge set is compared for finite activation energies (always the case here: attempt frequency finite)',
]

ANGSTROM = 1e-10
KB = 1.380649e-23
E_CHARGE = 1.602176634e-19

BOUNDS = {
    # cfg='all': every trace under every configuration; cfg='rotate': every trace under one
    # configuration, configurations assigned round-robin to the shards (deterministic)
    'quick': [dict(A=1, S=3, Lmax=3, cfg='all'), dict(A=1, S=3, Lmin=4, Lmax=4, cfg='rotate'), dict(A=2, S=2, Lmax=2, cfg='all'),
              dict(A=2, S=3, Lmin=2, Lmax=2, cfg='rotate')],
    'thorough': [dict(A=1, S=3, Lmax=4, cfg='all'), dict(A=1, S=3, Lmin=5, Lmax=5, cfg='rotate'), dict(A=2, S=2, Lmax=2, cfg='all'),
                 dict(A=2, S=2, Lmin=3, Lmax=3, cfg='rotate'), dict(A=2, S=3, Lmin=2, Lmax=2, cfg='all'), dict(A=1, S=4, Lmax=4, cfg='rotate')],
}
SITES_FOR = {3: 'S3', 2: 'S2', 4: 'S4'}


def configs(tier, seed, S):
    lats = alphabets.lattices(tier, seed)
    if tier == 'quick':
        lats = [l for l in lats if l[0] in ('cubic6', 'ortho567-axes-permuted', 'hex-a5-c7', 'tric-pmg-default')]
    out = []
    for k, (lname, M) in enumerate(lats):
        for j, labels in enumerate(alphabets.LABELS[S]):
            out.append({'lat': lname, 'M': M.tolist(), 'labels': list(labels), 'dim': 1 + (k + j) % 3, 'dt': [1e-15, 2e-15][(k + j) % 2]})
    return out


def shards(tier, seed):
    out = []
    for b in BOUNDS[tier]:
        b = dict(b)
        mode = b.pop('cfg')
        cfgs = configs(tier, seed, b['S'])
        if mode == 'all':
            for cfg in cfgs:
                out += traces.make_shards([b], 400 if tier == 'quick' else 2500, extra={'cfg': cfg})
        else:
            sh = traces.make_shards([b], 150 if tier == 'quick' else 1200)
            for k, x in enumerate(sh):
                x['cfg'] = cfgs[k % len(cfgs)]
            out += sh
    out.append({'many_sites': 1100})
    return out


vib_traj = concretise.vib_traj


def check_many_sites(S):
    """State level, more than a thousand sites: moves between sites with indices around 255, 999/1000 and the last one."""
    from gemdat.jumps import Jumps

    visit = [0, 255, 256, -1, 999, 1000, 1001, 999, 1000, -1, S - 1, 1, 1000, S - 1, 0, S - 2]
    trace = [(0 if a == -1 else 1 + 2 * a, 0 if b == -1 else 1 + 2 * b) for a, b in zip(visit, visit[5:] + visit[:5])]
    viols = []
    tr = impl.make_transitions(trace, S)
    rows = hop.change_log(trace)
    exp_tm = np.array(hop.count_matrix([(r[1], r[2]) for r in rows], S))
    tm = np.asarray(tr.matrix())
    if tm.shape != exp_tm.shape or not np.array_equal(tm, exp_tm):
        bad = np.argwhere(tm != exp_tm)[:4].tolist() if tm.shape == exp_tm.shape else tm.shape
        viols.append(('transition-matrix-wrong-many-sites', f'{S} sites; entries {bad}'))
    D = hop.default_jumps(trace)
    exp_jm = np.array(hop.count_matrix([(d[1], d[2]) for d in D], S))
    jm = np.asarray(Jumps(tr).matrix())
    if jm.shape != exp_jm.shape or not np.array_equal(jm, exp_jm):
        bad = np.argwhere(jm != exp_jm)[:4].tolist() if jm.shape == exp_jm.shape else jm.shape
        viols.append(('jump-matrix-wrong-many-sites', f'{S} sites; entries {bad}'))
    return viols


def close(a, b, rtol=1e-9):
    if a == b:
        return True
    return abs(a - b) <= rtol * max(abs(a), abs(b))


def check(trace, S, cfg):
    from gemdat.jumps import Jumps

    viols = []
    L, A = len(trace), len(trace[0])
    rows = hop.change_log(trace)
    if not rows:
        return viols, ('nochange',)
    M = np.array(cfg['M'])
    labels = cfg['labels']
    site_frac = np.array(alphabets.SITESETS[SITES_FOR[S]])
    # the site structure may carry its own cell; distances are those of the simulation cell
    Ms = M if (L + A) % 2 == 0 else (M * 1.06) @ geom.rotation((12.0, 31.0, 47.0)).T
    sites = concretise.make_sites(site_frac, labels, Ms)
    traj = vib_traj(A, L, M, cfg['dt'])
    try:
        tr = impl.make_transitions(trace, S, trajectory=traj, diff_trajectory=traj, sites=sites)
    except Exception as e:  # noqa: BLE001
        return [(f'transitions-raise-{type(e).__name__}', str(e))], ('raise',)
    key = [cfg['lat'], tuple(labels)]
    # --- transition matrix: entry (i,j) = number of recorded moves i->j; no-site moves belong nowhere
    exp_tm = hop.count_matrix([(r[1], r[2]) for r in rows], S)
    try:
        tm = np.asarray(tr.matrix())
        key.append(tm.tobytes())
        if tm.shape != (S, S) or tm.tolist() != exp_tm:
            has_nosite = any(r[1] == -1 or r[2] == -1 for r in rows)
            kind = 'transition-matrix-wrong' + ('-nosite-events' if has_nosite else '')
            viols.append((kind, f'got={tm.tolist()} expected={exp_tm} events={rows}'))
    except Exception as e:  # noqa: BLE001
        viols.append((f'transition-matrix-raise-{type(e).__name__}', str(e)))
    # --- occupancy
    if not hop.has_double_occupancy(trace):
        exp_occ = hop.occupancy(trace, S)
        try:
            occ = [float(s.species.num_atoms) for s in tr.occupancy()]
            key.append(tuple(round(x, 9) for x in occ))
            if any(abs(a - b) > 1e-12 for a, b in zip(occ, exp_occ)) or len(occ) != S:
                viols.append(('occupancy-wrong', f'got={occ} expected={exp_occ}'))
            by_type = tr.occupancy_by_site_type()
            loc = tr.atom_locations()
            for lab in set(labels):
                idx = [i for i, l in enumerate(labels) if l == lab]
                e_type = sum(exp_occ[i] for i in idx) / len(idx)
                e_loc = sum(exp_occ[i] for i in idx) / A
                if abs(by_type[lab] - e_type) > 1e-12:
                    viols.append(('occupancy-by-type-wrong', f'{lab}: got={by_type[lab]} expected={e_type}'))
                if abs(loc[lab] - e_loc) > 1e-12:
                    viols.append(('atom-locations-wrong', f'{lab}: got={loc[lab]} expected={e_loc}'))
            frac_at_sites = sum(1 for row in trace for x in row if x != 0) / (L * A)
            if abs(sum(loc.values()) - frac_at_sites) > 1e-12:
                viols.append(('atom-locations-sum-wrong', f'sum={sum(loc.values())} expected={frac_at_sites}'))
        except Exception as e:  # noqa: BLE001
            viols.append((f'occupancy-raise-{type(e).__name__}', str(e)))
    # --- occupancy of the parts of a split (each part: fraction of ITS frames)
    if not hop.has_double_occupancy(trace) and len(rows) >= 2 and L >= 3:
        try:
            for k, part in enumerate(tr.split(2)):
                ps = np.asarray(part.states)
                e_occ = [float(np.sum(ps == i)) / len(ps) for i in range(S)]
                g_occ = [float(x.species.num_atoms) for x in part.occupancy()]
                if any(abs(a - b) > 1e-12 for a, b in zip(g_occ, e_occ)):
                    viols.append(('occupancy-of-split-part-wrong', f'part {k} of 2 ({len(ps)} frames): got={g_occ} expected={e_occ}'))
                    break
        except Exception as e:  # noqa: BLE001
            viols.append((f'split-occupancy-raise-{type(e).__name__}', str(e)))
    # --- jumps
    D = hop.default_jumps(trace)
    try:
        j = Jumps(tr)
    except ValueError as e:
        if 'No jumps found' in str(e):
            key.append('nojumps')
            return viols, tuple(key)
        return viols + [('jumps-raise-ValueError', str(e))], tuple(key)
    except Exception as e:  # noqa: BLE001
        return viols + [(f'jumps-raise-{type(e).__name__}', str(e))], tuple(key)
    jr = impl.jump_rows(j.data)
    pairs = [(r[1], r[2]) for r in jr]
    exp_jm = hop.count_matrix(pairs, S)
    try:
        jm = np.asarray(j.matrix())
        key.append(jm.tobytes())
        if jm.tolist() != exp_jm:
            viols.append(('jump-matrix-wrong', f'got={jm.tolist()} expected={exp_jm} jumps={jr}'))
        if int(jm.sum()) != j.n_jumps or j.n_jumps != len(jr):
            viols.append(('jump-matrix-sum-not-n-jumps', f'sum={jm.sum()} n_jumps={j.n_jumps}'))
        if np.trace(jm) != 0:
            viols.append(('jump-matrix-diagonal-not-empty', f'{jm.tolist()}'))
        c = j._counter()
        if dict(c) != dict(Counter(pairs)):
            viols.append(('index-counter-wrong', f'got={dict(c)} expected={dict(Counter(pairs))}'))
        cl = j.counter()
        exp_cl = Counter()
        for (a, b) in pairs:
            exp_cl[labels[a], labels[b]] += 1
        if dict(cl) != dict(exp_cl):
            viols.append(('label-counter-wrong', f'got={dict(cl)} expected={dict(exp_cl)}'))
    except Exception as e:  # noqa: BLE001
        viols.append((f'jump-counts-raise-{type(e).__name__}', str(e)))
    total_time = L * cfg['dt']
    # --- jump diffusivity
    try:
        dim = cfg['dim']
        got = float(j.jump_diffusivity(dim))
        DS = geom.dist_matrix(site_frac, site_frac, M)
        exp = sum(DS[a, b] ** 2 for a, b in pairs) * ANGSTROM**2 / (2 * dim * A * total_time)
        if not close(got, exp, 1e-9):
            viols.append(('jump-diffusivity-wrong', f'got={got} expected={exp} pairs={pairs} dim={dim} N={A} t={total_time}'))
    except Exception as e:  # noqa: BLE001
        viols.append((f'jump-diffusivity-raise-{type(e).__name__}', str(e)))
    # --- graph (needs occupancies <= 1: pymatgen refuses to build the occupancy structure otherwise)
    try:
        if hop.has_double_occupancy(trace):
            raise StopIteration
        G = j.to_graph()
        exp_edges = {(a, b) for a, b in pairs}
        if set(G.edges) != exp_edges:
            viols.append(('graph-edges-wrong', f'got={sorted(G.edges)} expected={sorted(exp_edges)}'))
        if sorted(G.nodes) != list(range(S)) or [G.nodes[i]['label'] for i in range(S)] != list(labels):
            viols.append(('graph-nodes-wrong', f'{dict(G.nodes(data=True))}'))
        nu = float(traj.metrics().attempt_frequency()[0])
        occ_exp = hop.occupancy(trace, S)
        cnt = Counter(pairs)
        for (a, b) in exp_edges & set(G.edges):
            eff = cnt[a, b] / (occ_exp[a] * total_time)
            e_act = -math.log(eff / nu) * KB * 400.0 / E_CHARGE
            if not close(G.edges[a, b]['e_act'], e_act, 1e-9):
                viols.append(('graph-activation-energy-wrong', f'edge {(a, b)} got={G.edges[a, b]["e_act"]} expected={e_act}'))
        # thresholds, then the default call again on the same object (call-order independence)
        acts = sorted(G.edges[e]['e_act'] for e in G.edges)
        if len(acts) >= 2 and acts[-1] - acts[0] > 1e-9:
            cut = (acts[0] + acts[-1]) / 2
            lo = {e for e in exp_edges if G.edges[e]['e_act'] <= cut}
            G1 = j.to_graph(max_e_act=cut)
            if set(G1.edges) != lo:
                viols.append(('graph-threshold-edges-wrong', f'max_e_act={cut}: got={sorted(G1.edges)} expected={sorted(lo)}'))
            G2 = j.to_graph(min_e_act=cut)
            if set(G2.edges) != exp_edges - lo and not any(abs(G.edges[e]['e_act'] - cut) < 1e-12 for e in exp_edges):
                viols.append(('graph-threshold-edges-wrong', f'min_e_act={cut}: got={sorted(G2.edges)} expected={sorted(exp_edges - lo)}'))
            G3 = j.to_graph()
            if set(G3.edges) != exp_edges:
                viols.append(('graph-edges-wrong-after-thresholded-call', f'got={sorted(G3.edges)} expected={sorted(exp_edges)}'))
    except StopIteration:
        pass
    except Exception as e:  # noqa: BLE001
        viols.append((f'graph-raise-{type(e).__name__}', str(e)))
    # --- rates (n_parts = 1: mean over one part)
    try:
        r = j.rates(n_parts=1)
        exp_cl = Counter()
        for (a, b) in pairs:
            exp_cl[labels[a], labels[b]] += 1
        for pair in set((x, y) for x in labels for y in labels):
            got = float(r.loc[pair, 'rates'])
            exp = exp_cl[pair] / (A * total_time)
            if not close(got, exp, 1e-9):
                viols.append(('rates-wrong', f'{pair}: got={got} expected={exp}'))
                break
    except Exception as e:  # noqa: BLE001
        viols.append((f'rates-raise-{type(e).__name__}', str(e)))
    # --- with a minimal residence the rates must aggregate the jumps of THAT setting
    if any(x != 0 and x % 2 == 0 for row in trace for x in row):
        try:
            j3 = Jumps(tr, minimal_residence=3)
            c3 = Counter()
            for r in impl.jump_rows(j3.data):
                c3[labels[r[1]], labels[r[2]]] += 1
            r3 = j3.rates(n_parts=1)
            for pair in set((x, y) for x in labels for y in labels):
                if not close(float(r3.loc[pair, 'rates']), c3[pair] / (A * total_time), 1e-9):
                    viols.append(('rates-with-minimal-residence-wrong', f'{pair}: {float(r3.loc[pair, "rates"])} vs {c3[pair] / (A * total_time)}'))
                    break
        except ValueError as e:
            if 'No jumps found' not in str(e):
                viols.append(('rates-minimal-residence-raise-ValueError', str(e)))
        except Exception as e:  # noqa: BLE001
            viols.append((f'rates-minimal-residence-raise-{type(e).__name__}', str(e)))
    return viols, tuple(key)


def run_shard(shard) -> Result:
    res = Result()
    if 'many_sites' in shard:
        impl.clear_weak_caches()
        for kind, detail in check_many_sites(shard['many_sites']):
            res.violation(kind, {'many_sites': shard['many_sites']}, detail)
        res.evals += 1
        res.outcome(('many-sites', shard['many_sites']))
        res.stats['many_sites_cases'] += 1
        return res
    S, cfg = shard['S'], shard['cfg']
    for n, trace in enumerate(traces.iter_shard(shard)):
        if n % 256 == 0:
            impl.clear_weak_caches()
        viols, key = check(trace, S, cfg)
        res.evals += 1
        res.outcome(hash(key))
        for kind, detail in viols:
            res.violation(kind, {'trace': trace, 'n_sites': S, 'cfg': cfg}, detail)
        if n == 3:
            res.sample({'trace': trace, 'n_sites': S, 'cfg': {k: v for k, v in cfg.items() if k != 'M'}})
    res.stats[f'traces_A{shard["A"]}_S{S}_L{shard["L"]}'] += res.evals
    return res


def replay(case):
    if 'many_sites' in case:
        return [{'kind': k, 'detail': d} for k, d in check_many_sites(case['many_sites'])]
    viols, _ = check(case['trace'], case['n_sites'], case['cfg'])
    return [{'kind': k, 'detail': d} for k, d in viols]
