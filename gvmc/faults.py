"""Write-log recorder and crash-state materialiser for the cache write path (C16).

`recording()` shadows the name `open` in the module `gemdat.trajectory` (module globals shadow
builtins), so every file the cache code opens for writing is logged: (open, path, mode), (write,
path, bytes), (close, path), and renames (Path.replace / Path.rename / os.replace / os.rename) as (rename, src,
dst). Crash states are the directory contents at every point of that log:
after the open (empty file) and after every byte of every write.
"""

from __future__ import annotations

import builtins
import contextlib


class _Rec:
    def __init__(self, f, path, log):
        self._f, self._path, self._log = f, path, log

    def write(self, b):
        self._log.append(('write', self._path, bytes(b)))
        return self._f.write(b)

    def __getattr__(self, k):
        return getattr(self._f, k)

    def __enter__(self):
        return self

    def __exit__(self, *a):
        self._log.append(('close', self._path))
        return self._f.__exit__(*a)

    def close(self):
        self._log.append(('close', self._path))
        return self._f.close()


@contextlib.contextmanager
def recording():
    import gemdat.trajectory as gt

    log = []

    def rec_open(path, mode='r', *a, **kw):
        f = builtins.open(path, mode, *a, **kw)
        if any(c in mode for c in 'wax+'):
            log.append(('open', str(path), mode))
            return _Rec(f, str(path), log)
        return f

    import pathlib

    had = 'open' in vars(gt)
    old = vars(gt).get('open')
    gt.open = rec_open
    p_open, p_wb, p_wt = pathlib.Path.open, pathlib.Path.write_bytes, pathlib.Path.write_text

    def path_open(self, mode='r', *a, **kw):
        f = p_open(self, mode, *a, **kw)
        if any(c in mode for c in 'wax+'):
            log.append(('open', str(self), mode))
            return _Rec(f, str(self), log)
        return f

    def path_write_bytes(self, data):
        with path_open(self, 'wb') as f:
            return f.write(data)

    p_replace, p_rename = pathlib.Path.replace, pathlib.Path.rename

    def path_replace(self, target):
        out = p_replace(self, target)
        log.append(('rename', str(self), str(target)))
        return out

    def path_rename(self, target):
        out = p_rename(self, target)
        log.append(('rename', str(self), str(target)))
        return out

    import os as _os

    o_replace, o_rename = _os.replace, _os.rename

    def os_replace(src, dst, *a, **kw):
        out = o_replace(src, dst, *a, **kw)
        log.append(('rename', str(src), str(dst)))
        return out

    def os_rename(src, dst, *a, **kw):
        out = o_rename(src, dst, *a, **kw)
        log.append(('rename', str(src), str(dst)))
        return out

    pathlib.Path.open, pathlib.Path.write_bytes = path_open, path_write_bytes
    pathlib.Path.replace, pathlib.Path.rename = path_replace, path_rename
    _os.replace, _os.rename = os_replace, os_rename
    try:
        yield log
    finally:
        pathlib.Path.open, pathlib.Path.write_bytes = p_open, p_wb
        pathlib.Path.replace, pathlib.Path.rename = p_replace, p_rename
        _os.replace, _os.rename = o_replace, o_rename
        if had:
            gt.open = old
        else:
            del gt.open


def final_contents(log):
    files = {}
    for ev in log:
        if ev[0] == 'open':
            if 'w' in ev[2]:
                files[ev[1]] = b''
            else:
                files.setdefault(ev[1], b'')
        elif ev[0] == 'write':
            files[ev[1]] = files.get(ev[1], b'') + ev[2]
        elif ev[0] == 'rename' and ev[1] in files:
            files[ev[2]] = files.pop(ev[1])
    return files


def crash_states(log):
    """Every distinct directory content an interrupted execution of the logged writes can leave:
    list of dicts path -> bytes (files never opened are absent)."""
    states = [{}]
    files = {}
    for ev in log:
        if ev[0] == 'open':
            files = dict(files)
            files[ev[1]] = b'' if 'w' in ev[2] else files.get(ev[1], b'')
            states.append(dict(files))
        elif ev[0] == 'write':
            base = files.get(ev[1], b'')
            for k in range(1, len(ev[2]) + 1):
                st = dict(files)
                st[ev[1]] = base + ev[2][:k]
                states.append(st)
            files = dict(files)
            files[ev[1]] = base + ev[2]
        elif ev[0] == 'rename' and ev[1] in files:
            files = dict(files)
            files[ev[2]] = files.pop(ev[1])  # atomic: either the old or the new directory content
            states.append(dict(files))
    return states
