"""Finite alphabets shared by the checks (simplest first). Matrices have lattice vectors as rows."""

from __future__ import annotations

import numpy as np

from .ref import geom

# rows of "generic" constants; VERIF_SEED selects one row (nothing is drawn at random)
GENERIC_ROT = [(30.0, 40.0, 50.0), (17.0, 73.0, 111.0), (200.0, 10.0, 305.0), (91.0, 44.0, 3.0)]
GENERIC_VEC = [
    (0.137, 0.291, 0.713),
    (0.3141592, 0.2718281, 0.5772156),
    (0.9012, 0.0457, 0.6180339),
    (0.4142135, 0.7320508, 0.2360679),
]


def pmg_default(a, b, c, al, be, ga):
    """pymatgen's default orientation (c along z, a in the xz plane) - built with pymatgen on purpose:
    this is the orientation users get from Lattice.from_parameters."""
    from pymatgen.core import Lattice

    return np.array(Lattice.from_parameters(a, b, c, al, be, ga).matrix)


def lattices(tier='quick', seed=0):
    """-> list of (name, matrix). Quick tier: the starred subset of DESIGN 1.2."""
    R = geom.rotation(GENERIC_ROT[seed % len(GENERIC_ROT)])
    perm = np.array([[0, 1, 0], [0, 0, 1], [1, 0, 0]], dtype=float)  # x->y->z
    ortho = np.diag([5.0, 6.0, 7.0])
    tric = geom.from_parameters(5, 6, 7, 70, 80, 100)
    out = [
        ('cubic6', np.eye(3) * 6.0),
        ('ortho567', ortho),
        ('ortho567-axes-permuted', ortho @ perm.T),
        ('hex-a5-c7', geom.from_parameters(5, 5, 7, 90, 90, 120)),
        ('tric-pmg-default', pmg_default(5, 6, 7, 70, 80, 100)),
        ('cubic6-generic-rot', (np.eye(3) * 6.0) @ R.T),
        ('tric-vesta', tric),
    ]
    swap = np.array([[0, 1, 0], [1, 0, 0], [0, 0, 1]], dtype=float)  # odd permutation: left-handed cell matrix
    out.append(('tric-vesta-left-handed', swap @ tric))
    if tier == 'thorough':
        strong = geom.from_parameters(5, 6, 7, 55, 110, 75)
        out += [
            ('mono-b105', geom.from_parameters(5, 6, 7, 90, 105, 90)),
            ('tric-strong', strong),
            ('rhombo60', geom.from_parameters(6, 6, 6, 60, 60, 60)),
            ('tric-vesta-generic-rot', tric @ R.T),
            ('tric-strong-generic-rot', strong @ R.T),
            ('hex-permuted', geom.from_parameters(5, 5, 7, 90, 90, 120) @ perm.T),
            ('ortho567-generic-rot', ortho @ R.T),
        ]
        for k, C in enumerate(geom.cube_rotations()[1:6]):
            out.append((f'tric-vesta-cuberot{k + 1}', tric @ C.T))
    return out


# site sets in fractional coordinates (corner, face, near-face, interior), with label patterns
SITESETS = {
    'S3': [(0.0, 0.0, 0.0), (0.5, 0.5, 0.0), (0.98, 0.5, 0.52)],
    'S4': [(0.0, 0.0, 0.0), (0.5, 0.5, 0.0), (0.98, 0.5, 0.52), (0.4, 0.1, 0.6)],
    'S2': [(0.02, 0.97, 0.5), (0.52, 0.47, 0.0)],
}
LABELS = {
    3: [('A', 'A', 'A'), ('A', 'B', 'A'), ('A', 'B', 'C')],
    4: [('A', 'A', 'A', 'A'), ('A', 'B', 'A', 'A'), ('A', 'B', 'C', 'A')],
    2: [('A', 'A'), ('A', 'B')],
}

# coordinate values on and next to the cell faces (C01 / C15)
FACE = [0.0, -0.0, 1e-17, -1e-17, 1 - 1e-16, 1.0, 1 + 2e-16, 0.5, float(np.nextafter(0.5, 0)), float(np.nextafter(0.5, 1)),
        0.25, 0.75, 0.1, 0.9, -0.3, 1.6, -1.0, 2.0]

# unit directions used to make atoms vibrate around their nominal position
DIRS = np.array(
    [(1, 0, 0), (0, 1, 0), (0, 0, 1), (-1, 0, 0), (0, -1, 0), (0, 0, -1),
     (1, 1, 1), (-1, 1, -1), (1, -1, -1), (-1, -1, 1), (1, 1, 0), (0, -1, 1)], dtype=float)
DIRS = DIRS / np.linalg.norm(DIRS, axis=1, keepdims=True)
