"""Engine shared by all checks: sharded bounded-exhaustive exploration on 16 processes,
violation -> replay artefacts, known-findings matching, evidence writer.

A check module (gvmc/checks/cNN.py) provides

    ID, LEVEL, RULE, ASSUMPTIONS
    shards(tier, seed)      -> list of picklable shard descriptors (deterministic for (tier, seed))
    run_shard(shard)        -> Result (executed in a worker process)
    replay(case)            -> list[Violation dict]   (re-evaluates one recorded case, no explorer)

Nothing here samples: `shards` is a deterministic product of alphabets; the seed only rotates the
visiting order and selects a row of "generic constants" tables.
"""

from __future__ import annotations

import hashlib
import json
import multiprocessing as mp
import os
import sys
import time
import traceback
from collections import Counter
from pathlib import Path

import numpy as np

ROOT = Path(__file__).resolve().parents[1]
TREE = os.environ.get('GVMC_TREE', '/repo').rstrip('/')
_OUT = Path(os.environ.get('GVMC_OUT', '/tmp/gvmc-out')) if TREE != '/repo' else ROOT
EVIDENCE = _OUT / 'evidence'
REPLAYS = _OUT / 'replays'
FINDINGS = ROOT / 'known_findings.json'

MAX_VIOLS_KEPT = 12
MAX_SAMPLES = 6
MAX_OUTCOMES = 200000


class HarnessError(Exception):
    """The harness itself is broken or non-deterministic: exit 2, never a VIOLATION."""


def jsonable(x):
    """Recursively convert numpy / tuples / sets to plain JSON values (floats via repr-exact)."""
    if isinstance(x, dict):
        return {str(k): jsonable(v) for k, v in x.items()}
    if isinstance(x, (list, tuple)):
        return [jsonable(v) for v in x]
    if isinstance(x, (set, frozenset)):
        return sorted(jsonable(v) for v in x)
    if isinstance(x, np.ndarray):
        return jsonable(x.tolist())
    if isinstance(x, (np.integer,)):
        return int(x)
    if isinstance(x, (np.floating,)):
        return float(x)
    if isinstance(x, (np.bool_,)):
        return bool(x)
    if isinstance(x, float):
        if x != x:
            return 'nan'
        if x in (float('inf'), float('-inf')):
            return 'inf' if x > 0 else '-inf'
        return x
    if isinstance(x, (int, str, bool)) or x is None:
        return x
    if isinstance(x, bytes):
        return {'__bytes_hex__': x.hex()}
    return repr(x)


def digest(x) -> str:
    return hashlib.sha1(json.dumps(jsonable(x), sort_keys=True).encode()).hexdigest()[:12]


class ShardSaturated(Exception):
    """Raised inside a shard once it has recorded SATURATION violations that are not known findings: the
    shard stops and returns what it has (a grossly broken tree must not turn a 20 s check into hours)."""

    def __init__(self, result):
        super().__init__('saturated')
        self.result = result


SATURATION = 400
_KNOWN_KINDS = None


def known_kinds():
    global _KNOWN_KINDS
    if _KNOWN_KINDS is None:
        try:
            _KNOWN_KINDS = {f['kind'] for f in load_findings().get('open', [])}
        except Exception:  # noqa: BLE001
            _KNOWN_KINDS = set()
    return _KNOWN_KINDS


class Result:
    """What a shard (or a whole run) covered."""

    def __init__(self):
        self.evals = 0
        self.viols: list[dict] = []
        self.n_viols = 0
        self.viol_kinds: Counter = Counter()
        self.outcomes: set = set()
        self.stats: Counter = Counter()
        self.samples: list = []
        self.states = 0
        self.transitions = 0
        self.traces = 0

    def violation(self, kind: str, case, detail: str = ''):
        self.n_viols += 1
        self.viol_kinds[kind] += 1
        if kind not in known_kinds():
            self.n_unknown = getattr(self, 'n_unknown', 0) + 1
        # keep the first (simplest-first order) cases of every kind
        if sum(1 for v in self.viols if v['kind'] == kind) < 3 and len(self.viols) < MAX_VIOLS_KEPT * 4:
            self.viols.append({'kind': kind, 'case': jsonable(case), 'detail': detail[:2000]})
        if getattr(self, 'n_unknown', 0) >= SATURATION and not getattr(self, 'no_saturation', False):
            self.stats['shards_stopped_after_%d_violations' % SATURATION] += 1
            raise ShardSaturated(self)

    def outcome(self, key):
        if len(self.outcomes) < MAX_OUTCOMES:
            self.outcomes.add(key if isinstance(key, (str, int, tuple)) else digest(key))

    def sample(self, s):
        if len(self.samples) < MAX_SAMPLES:
            self.samples.append(jsonable(s))

    def merge(self, o: 'Result'):
        self.evals += o.evals
        self.n_viols += o.n_viols
        self.viol_kinds.update(o.viol_kinds)
        for v in o.viols:
            if sum(1 for w in self.viols if w['kind'] == v['kind']) < 3:
                self.viols.append(v)
        if len(self.outcomes) < MAX_OUTCOMES:
            self.outcomes |= o.outcomes
        self.stats.update(o.stats)
        for s in o.samples:
            if len(self.samples) < MAX_SAMPLES:
                self.samples.append(s)
        self.states += o.states
        self.transitions += o.transitions
        self.traces += o.traces


def _worker_init():
    import warnings

    warnings.filterwarnings('ignore')
    os.environ.setdefault('OMP_NUM_THREADS', '1')


def _call_shard(args):
    modname, shard = args
    import importlib

    mod = importlib.import_module(modname)
    try:
        return ('ok', mod.run_shard(shard))
    except ShardSaturated as e:
        return ('ok', e.result)
    except HarnessError as e:
        return ('harness', f'{e}\n{traceback.format_exc()}')
    except Exception as e:  # a crash of the *harness* code path, not of gemdat (checks catch those)
        return ('harness', f'unhandled {type(e).__name__}: {e}\n{traceback.format_exc()}')


def assert_repo_under_test():
    import gemdat

    f = str(Path(gemdat.__file__).resolve())
    if not f.startswith(TREE + '/src/'):
        raise HarnessError(f'gemdat imported from {f}, not from {TREE}/src')
    return f


def load_findings():
    if FINDINGS.exists():
        return json.loads(FINDINGS.read_text())
    return {'open': [], 'fixed': []}


def run_check(mod, tier: str, seed: int, jobs: int, cap_s: float | None = None) -> int:
    t0 = time.time()
    assert_repo_under_test()
    shards = list(mod.shards(tier, seed))
    if not shards:
        raise HarnessError('no shards')
    # seed rotates the visiting order only
    k = seed % len(shards)
    order = shards[k:] + shards[:k]
    total = Result()
    cap_hit = False
    done = 0
    ctx = mp.get_context('fork')
    modname = mod.__name__
    if jobs <= 1:
        it = (_call_shard((modname, s)) for s in order)
        pool = None
    else:
        pool = ctx.Pool(min(jobs, len(order)), initializer=_worker_init, maxtasksperchild=1 if getattr(mod, 'FRESH_WORKER_PER_SHARD', False) else None)
        it = pool.imap_unordered(_call_shard, [(modname, s) for s in order], chunksize=1)
    try:
        while True:
            try:
                if pool is not None and cap_s is not None:
                    # wait for the next shard, but never beyond the cap (a shard that never returns must not hang the run)
                    remaining = cap_s - (time.time() - t0)
                    if remaining <= 0:
                        raise mp.TimeoutError
                    status, payload = it.next(timeout=remaining)
                else:
                    status, payload = next(it)
            except StopIteration:
                break
            except mp.TimeoutError:
                cap_hit = True
                break
            if status != 'ok':
                raise HarnessError(payload)
            total.merge(payload)
            done += 1
            if cap_s is not None and time.time() - t0 > cap_s and done < len(order):
                cap_hit = True
                break
    finally:
        if pool is not None:
            pool.terminate()
            pool.join()

    # determinism: the first shard of the canonical order is recomputed and must agree exactly
    if getattr(mod, 'DETERMINISM_RECHECK', True) and not cap_hit:
        def _safe(sh):
            try:
                return mod.run_shard(sh)
            except ShardSaturated as e:
                return e.result

        a = _safe(shards[0])
        b = _safe(shards[0])
        if (a.evals, sorted(map(str, a.outcomes)), a.n_viols) != (b.evals, sorted(map(str, b.outcomes)), b.n_viols):
            if total.n_viols == 0:
                raise HarnessError('non-deterministic shard: two executions of shard 0 differ')
            # violations were found AND the code under test behaves differently from run to run (e.g. results
            # that depend on memory addresses): report the violations; the replay files say what was observed
            print('NOTE: two executions of shard 0 differ (behaviour of the code under test is not reproducible run-to-run)')

    if hasattr(mod, 'finalize') and not cap_hit:
        mod.finalize(total, tier)
    if cap_hit and tier == 'quick' and total.n_viols == 0:
        raise HarnessError(f'quick tier did not finish within its {cap_s:.0f} s safety cap ({done}/{len(order)} shards): not a verdict')

    wall = time.time() - t0
    return report(mod, total, tier, seed, wall, len(shards), done, cap_hit)


def report(mod, total: Result, tier, seed, wall, n_shards, done, cap_hit) -> int:
    findings = load_findings()
    open_kinds = {f['kind']: f for f in findings.get('open', []) if f.get('property') == mod.ID}
    known_fired = Counter()
    unknown = []
    for kind, n in total.viol_kinds.items():
        if kind in open_kinds:
            known_fired[kind] += n
        else:
            unknown.append(kind)
    for kind, n in sorted(known_fired.items()):
        print(f'KNOWN-FINDING: property={mod.ID} {kind}: {open_kinds[kind]["what"]} ({n} cases this run)')

    rc = 0
    REPLAYS.mkdir(parents=True, exist_ok=True)
    written = set()
    for v in total.viols:
        if v['kind'] in open_kinds or v['kind'] in written:
            continue
        written.add(v['kind'])
        path = REPLAYS / f'{mod.ID}-{digest([v["kind"], v["case"]])}.json'
        path.write_text(
            json.dumps(
                {
                    'property': mod.ID,
                    'kind': v['kind'],
                    'detail': v['detail'],
                    'case': v['case'],
                    'how_to_replay': f'./run {mod.ID} --replay {path}',
                },
                indent=1,
            )
        )
        print(f'VIOLATION property={mod.ID} replay={path}')
        print(f'  kind={v["kind"]} count={total.viol_kinds[v["kind"]]} detail={v["detail"][:400]}')
        rc = 1
    for kind in unknown:
        if kind not in written:  # more kinds than kept cases (should not happen)
            print(f'VIOLATION property={mod.ID} replay=none kind={kind}')
            rc = 1

    distinct = len(total.outcomes)
    cov = {
        'evaluations': int(total.evals),
        'distinct_nontrivial': int(distinct),
        'rule': mod.RULE,
        'samples': total.samples[:MAX_SAMPLES] or ['(none)'],
        'exhaustive': (not cap_hit),
        'shards_total': n_shards,
        'shards_completed': done,
        'cap_hit': cap_hit,
        'stats': {k: int(v) for k, v in sorted(total.stats.items())},
        'violations_by_kind': {k: int(v) for k, v in total.viol_kinds.items()},
        'known_findings_fired': {k: int(v) for k, v in known_fired.items()},
    }
    if mod.LEVEL == 'model_checking':
        cov['states'] = int(total.states)
        cov['transitions'] = int(total.transitions)
        cov['traces_validated_against_impl'] = int(total.traces)
    ev = {
        'property_id': mod.ID,
        'tier': tier,
        'seed': int(seed),
        'level': mod.LEVEL,
        'coverage': cov,
        'assumptions': list(getattr(mod, 'ASSUMPTIONS', [])),
        'wall_s': round(wall, 2),
        'violations': int(sum(n for k, n in total.viol_kinds.items() if k not in open_kinds)),
    }
    EVIDENCE.mkdir(parents=True, exist_ok=True)
    (EVIDENCE / f'{mod.ID}.json').write_text(json.dumps(ev, indent=1))
    print(
        f'{mod.ID} tier={tier} seed={seed} evals={total.evals} distinct_outcomes={distinct} '
        f'states={total.states} transitions={total.transitions} shards={done}/{n_shards} '
        f'cap_hit={cap_hit} violations={ev["violations"]} wall={wall:.1f}s'
    )
    # non-vacuity: many executions but a single outcome means nothing collided
    if distinct < 2 and rc == 0:
        raise HarnessError('vacuous run: fewer than 2 distinct outcomes observed')
    return rc
