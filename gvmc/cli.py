"""CLI: python -m gvmc.cli <ID> [--tier quick|thorough] [--replay FILE] [--jobs N] [--cap SECONDS]"""

from __future__ import annotations

import argparse
import importlib
import json
import os
import sys
import traceback
import warnings

warnings.filterwarnings('ignore')


def main(argv=None) -> int:
    ap = argparse.ArgumentParser()
    ap.add_argument('id')
    ap.add_argument('--tier', default=os.environ.get('VERIF_TIER', 'quick'), choices=['quick', 'thorough'])
    ap.add_argument('--replay')
    ap.add_argument('--jobs', type=int, default=int(os.environ.get('VERIF_JOBS', '16')))
    ap.add_argument('--cap', type=float, default=None, help='wall-clock cap in seconds (reported)')
    a = ap.parse_args(argv)
    seed = int(os.environ.get('VERIF_SEED', '0') or 0)

    from . import core

    if a.id.upper() == 'SELFTEST':
        from . import selftest

        return selftest.main()
    try:
        mod = importlib.import_module(f'gvmc.checks.{a.id.lower()}')
        if a.replay:
            core.assert_repo_under_test()
            rec = json.loads(open(a.replay).read())
            viols = mod.replay(rec['case'])
            if viols:
                for v in viols:
                    print(f'VIOLATION property={mod.ID} replay={a.replay}')
                    print(f'  kind={v["kind"]} detail={v["detail"][:600]}')
                return 1
            print(f'replay of {a.replay}: property holds on this case')
            return 0
        cap = a.cap
        if cap is None:
            cap = getattr(mod, 'CAPS', {}).get(a.tier)
        if cap is None and a.tier == 'quick':
            cap = 1200.0  # safety net only: quick tiers take < 1 min on the unchanged tree; a hit is reported
        if cap is None and a.tier == 'thorough':
            cap = 2400.0  # thorough tiers report the cap and what was completed below it (never called exhaustive then)
        return core.run_check(mod, a.tier, seed, a.jobs, cap_s=cap)
    except core.HarnessError as e:
        print(f'HARNESS-ERROR {a.id}: {e}', file=sys.stderr)
        return 2
    except Exception:
        traceback.print_exc()
        print(f'HARNESS-ERROR {a.id}: unhandled exception', file=sys.stderr)
        return 2


if __name__ == '__main__':
    sys.exit(main())
