"""Synthesised minimal simulation output files (LAMMPS data+xyz, vasprun.xml, GROMACS gro+xtc)
written into a private directory, so the real loaders can be driven offline."""

from __future__ import annotations

from pathlib import Path

import numpy as np

T_FRAMES = 3


def write_lammps(d: Path):
    data = """LAMMPS data file

3 atoms
2 atom types

0.0 5.0 xlo xhi
0.0 6.0 ylo yhi
0.0 7.0 zlo zhi

Masses

1 6.94
2 32.06

Atoms # atomic

1 1 0.5 0.5 0.5
2 1 2.5 3.0 3.5
3 2 4.0 1.0 6.0
"""
    (d / 'lmp.data').write_text(data)
    (d / 'lmp2.data').write_text(data.replace('0.0 5.0 xlo xhi', '0.0 5.5 xlo xhi'))  # same atoms, other box
    charge = data.replace('Atoms # atomic', 'Atoms # charge').replace('1 1 0.5 0.5 0.5', '1 1 1.0 0.5 0.5 0.5').replace('2 1 2.5 3.0 3.5', '2 1 1.0 2.5 3.0 3.5').replace('3 2 4.0 1.0 6.0', '3 2 -2.0 4.0 1.0 6.0')
    (d / 'lmp3.data').write_text(charge)  # the same system written with atom_style charge
    frames = []
    for t in range(T_FRAMES):
        frames.append('3\nframe %d\nLi %.6f 0.5 0.5\nLi 2.5 %.6f 3.5\nS 4.0 1.0 %.6f\n' % (t, 0.5 + 2.4 * t, 3.0 - 1.7 * t, 6.0 + 0.6 * t))  # atoms leave the box
    (d / 'lmp.xyz').write_text(''.join(frames))


def _structure_xml(name, pos):
    nm = f' name="{name}"' if name else ''
    basis = '\n'.join(f'    <v> {a:.8f} {b:.8f} {c:.8f} </v>' for a, b, c in [(5, 0, 0), (0, 6, 0), (0, 0, 7)])
    rec = '\n'.join(f'    <v> {a:.8f} {b:.8f} {c:.8f} </v>' for a, b, c in [(0.2, 0, 0), (0, 1 / 6, 0), (0, 0, 1 / 7)])
    p = '\n'.join(f'   <v> {a:.8f} {b:.8f} {c:.8f} </v>' for a, b, c in pos)
    return f''' <structure{nm}>
  <crystal>
   <varray name="basis">
{basis}
   </varray>
   <i name="volume"> 210.0 </i>
   <varray name="rec_basis">
{rec}
   </varray>
  </crystal>
  <varray name="positions">
{p}
  </varray>
 </structure>
'''


def write_vasprun(d: Path):
    _write_vasprun_file(d / 'vasprun.xml', 0.0)
    # a sibling run in the same directory whose name agrees with the first up to the first dot
    _write_vasprun_file(d / 'vasprun.run1.xml', 0.21)


def _write_vasprun_file(path: Path, shift: float):
    frames = [[(0.1 + 0.05 * t + shift, 0.1, 0.1), (0.5, 0.5 + 0.03 * t, 0.5 + shift), (0.8, 0.2, 0.9 - 0.04 * t)] for t in range(T_FRAMES)]
    calcs = ''
    for pos in frames:
        calcs += f''' <calculation>
  <scstep>
   <energy>
    <i name="e_fr_energy"> -10.0 </i>
    <i name="e_wo_entrp"> -10.0 </i>
    <i name="e_0_energy"> -10.0 </i>
   </energy>
  </scstep>
{_structure_xml('', pos)}
  <energy>
   <i name="e_fr_energy"> -10.0 </i>
   <i name="e_wo_entrp"> -10.0 </i>
   <i name="e_0_energy"> -10.0 </i>
  </energy>
 </calculation>
'''
    xml = f'''<?xml version="1.0" encoding="ISO-8859-1"?>
<modeling>
 <generator>
  <i name="program" type="string">vasp </i>
  <i name="version" type="string">5.4.4 </i>
 </generator>
 <incar>
  <i type="int" name="IBRION"> 0</i>
  <i name="POTIM"> 2.0</i>
  <i name="TEBEG"> 650.0</i>
  <i type="int" name="NSW"> {len(frames)}</i>
 </incar>
 <parameters>
  <separator name="electronic">
   <i type="int" name="NELM"> 60</i>
  </separator>
  <separator name="ionic">
   <i type="int" name="NSW"> {len(frames)}</i>
   <i type="int" name="IBRION"> 0</i>
   <i name="POTIM"> 2.0</i>
   <i name="TEBEG"> 650.0</i>
  </separator>
 </parameters>
 <atominfo>
  <atoms> 3 </atoms>
  <types> 2 </types>
  <array name="atoms">
   <dimension dim="1">ion</dimension>
   <field type="string">element</field>
   <field type="int">atomtype</field>
   <set>
    <rc><c>Li</c><c> 1</c></rc>
    <rc><c>Li</c><c> 1</c></rc>
    <rc><c>S </c><c> 2</c></rc>
   </set>
  </array>
  <array name="atomtypes">
   <dimension dim="1">type</dimension>
   <field type="int">atomspertype</field>
   <field type="string">element</field>
   <field>mass</field>
   <field>valence</field>
   <field type="string">pseudopotential</field>
   <set>
    <rc><c> 2</c><c>Li</c><c> 6.94</c><c> 1.0</c><c> PAW_PBE Li 17Jan2003 </c></rc>
    <rc><c> 1</c><c>S </c><c> 32.06</c><c> 6.0</c><c> PAW_PBE S 06Sep2000 </c></rc>
   </set>
  </array>
 </atominfo>
{_structure_xml('initialpos', frames[0])}
{calcs}
{_structure_xml('finalpos', frames[-1])}
</modeling>
'''
    path.write_text(xml)


def write_gromacs(d: Path):
    import MDAnalysis as mda

    n = 3
    u = mda.Universe.empty(n, n_residues=n, atom_resindex=np.arange(n), trajectory=True)
    u.add_TopologyAttr('names', ['LI', 'LI', 'S'])
    u.add_TopologyAttr('resnames', ['LIT', 'LIT', 'SUL'])
    u.add_TopologyAttr('resids', [1, 2, 3])
    frames = [np.array([[1.0 + 0.5 * t, 1, 1], [2.5, 3.0 + 0.3 * t, 3.5], [4, 1, 6.0 - 0.4 * t]]) for t in range(T_FRAMES)]
    u.dimensions = [5, 6, 7, 90, 90, 90]
    u.atoms.positions = frames[0]
    u.atoms.write(str(d / 'g.gro'))
    with mda.Writer(str(d / 'g.xtc'), n) as w:
        for t in range(T_FRAMES):
            u.atoms.positions = frames[t]
            u.dimensions = [5, 6, 7, 90, 90, 90]
            u.trajectory.ts.time = t * 2.0
            u.trajectory.ts.frame = t
            w.write(u.atoms)


LOADERS = {
    'lammps': (write_lammps, ['lmp.data', 'lmp2.data', 'lmp3.data', 'lmp.xyz']),
    'vasprun': (write_vasprun, ['vasprun.xml', 'vasprun.run1.xml']),
    'gromacs': (write_gromacs, ['g.gro', 'g.xtc']),
}


def call_loader(loader: str, d: Path, variant: dict):
    from gemdat.trajectory import Trajectory

    kw = dict(variant)
    if kw.get('cache') == 'EXPLICIT-STR':
        kw['cache'] = str(d / 'explicit-name.cache')  # an explicit cache file name given as a plain string
    if loader == 'lammps':
        base = dict(coords_file=d / 'lmp.xyz', data_file=d / kw.pop('_data', 'lmp.data'), temperature=300, time_step=1.0)
        base.update(kw)
        return Trajectory.from_lammps(**base)
    if loader == 'vasprun':
        fname = kw.pop('_file', 'vasprun.xml')
        return Trajectory.from_vasprun(d / fname, **kw)
    if loader == 'gromacs':
        base = dict(topology_file=d / 'g.gro', coords_file=d / 'g.xtc', temperature=300)
        base.update(kw)
        return Trajectory.from_gromacs(**base)
    raise ValueError(loader)


VARIANTS = {
    'lammps': [
        {}, {'temperature': 500}, {'time_step': 2.0}, {'type_mapping': {'LI': 'Na', 'S': 'Se'}}, {'type_mapping': {'LI': 'K', 'S': 'Se'}}, {'type_mapping': {'LI': 'Na', 'S': 'Se', 'X': 'O'}},
        {'constant_lattice': False}, {'atom_style': 'charge'}, {'coords_format': 'XYZ'}, {'_data': 'lmp2.data'}, {'cache': 'EXPLICIT-STR'},
        # a non-default atom style (with its matching data file) combined with different type mappings
        {'atom_style': 'charge', '_data': 'lmp3.data'}, {'atom_style': 'charge', '_data': 'lmp3.data', 'type_mapping': {'LI': 'Na', 'S': 'Se'}},
        {'atom_style': 'charge', '_data': 'lmp3.data', 'type_mapping': {'LI': 'K', 'S': 'Se'}},
    ],
    'vasprun': [{}, {'constant_lattice': False}, {'exception_on_bad_xml': False}, {'parse_dos': False}, {'_file': 'vasprun.run1.xml'}, {'ionic_step_skip': 2}],
    'gromacs': [{}, {'temperature': 500}, {'constant_lattice': False}],
}
