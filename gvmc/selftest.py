"""Engine self-test run by MANIFEST.setup_cmd: the reference models must flag deliberately faulty
stand-ins (so an oracle that can no longer fail is noticed before any check is believed)."""

from __future__ import annotations


def main() -> int:
    from . import core
    from .ref import hop

    core.assert_repo_under_test()
    failures = []

    # hop reference: a change-log that forgets the last transition must differ
    tr = [[0], [1], [1], [3]]
    rows = hop.change_log(tr)
    if rows != [(0, -1, 0, -1, 0, 0), (0, 0, 1, 0, 1, 2)]:
        failures.append(f'hop.change_log wrong: {rows}')
    if hop.default_jumps(tr) != [(0, 0, 1, 2, 3)]:
        failures.append(f'hop.default_jumps wrong: {hop.default_jumps(tr)}')
    if hop.default_jumps([[1], [0], [1]]) != []:
        failures.append('A->none->A must not be a jump')
    p, n = hop.prev_next([[0], [1], [0], [3], [0]])
    if [r[0] for r in p] != [-1, 0, 0, 1, 1] or [r[0] for r in n] != [0, 0, 1, 1, -1]:
        failures.append('hop.prev_next wrong')

    for mod in ('geom',):
        try:
            m = __import__(f'gvmc.ref.{mod}', fromlist=['selftest'])
        except ImportError:
            continue
        if hasattr(m, 'selftest'):
            failures += m.selftest()

    for f in failures:
        print('SELFTEST-FAIL', f)
    print(f'selftest: {"FAILED" if failures else "ok"}')
    return 2 if failures else 0
