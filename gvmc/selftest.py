"""Engine self-test run by MANIFEST.setup_cmd: the reference models must flag deliberately faulty
stand-ins (so an oracle that can no longer fail is noticed before any check is believed)."""

from __future__ import annotations


def main() -> int:
    from . import core
    from .ref import hop

    core.assert_repo_under_test()
    failures = []

    # hop reference: a change-log that forgets the last transition must differ
    tr = [[0], [1], [1], [3]]
    rows = hop.change_log(tr)
    if rows != [(0, -1, 0, -1, 0, 0), (0, 0, 1, 0, 1, 2)]:
        failures.append(f'hop.change_log wrong: {rows}')
    if hop.default_jumps(tr) != [(0, 0, 1, 2, 3)]:
        failures.append(f'hop.default_jumps wrong: {hop.default_jumps(tr)}')
    if hop.default_jumps([[1], [0], [1]]) != []:
        failures.append('A->none->A must not be a jump')
    p, n = hop.prev_next([[0], [1], [0], [3], [0]])
    if [r[0] for r in p] != [-1, 0, 0, 1, 1] or [r[0] for r in n] != [0, 0, 1, 1, -1]:
        failures.append('hop.prev_next wrong')

    # path reference on a grid small enough to do by hand
    from .ref import pathref

    E = {(0, 0, 0): 0.1, (1, 0, 0): 0.5, (2, 0, 0): 0.1}
    d = pathref.dijkstra(E, (3, 1, 1), pathref.offsets(True), (0, 0, 0), 'sum', 1e7)
    if abs(d[(2, 0, 0)] - 0.1) > 1e-12 or abs(d[(1, 0, 0)] - 0.3) > 1e-12:
        failures.append(f'pathref.dijkstra wrong on 3x1x1 ring: {d}')
    if pathref.bottleneck(E, (3, 1, 1), pathref.offsets(True), (0, 0, 0))[(2, 0, 0)] != 0.1:
        failures.append('pathref.bottleneck wrong')
    if len(pathref.offsets(True)) != 26 or len(pathref.offsets(False)) != 6:
        failures.append('pathref.offsets')

    # crash-state enumeration of a write log
    from . import bfs, faults

    log = [('open', '/x', 'wb'), ('write', '/x', b'abc'), ('close', '/x')]
    if faults.crash_states(log) != [{}, {'/x': b''}, {'/x': b'a'}, {'/x': b'ab'}, {'/x': b'abc'}]:
        failures.append('faults.crash_states wrong')
    log2 = [('open', '/x.tmp', 'xb'), ('write', '/x.tmp', b'ab'), ('close', '/x.tmp'), ('rename', '/x.tmp', '/x')]
    if faults.crash_states(log2) != [{}, {'/x.tmp': b''}, {'/x.tmp': b'a'}, {'/x.tmp': b'ab'}, {'/x': b'ab'}] or faults.final_contents(log2) != {'/x': b'ab'}:
        failures.append('faults.crash_states / final_contents wrong for a write-then-rename protocol')

    # BFS engine: a mod-5 counter with inc / double closes at 5 states; a seeded bad state must be reported
    bad = []
    st = bfs.explore(
        build=lambda h: sum(h) % 5, enabled=lambda w, h: [1, 2], canon=lambda w: w,
        check=lambda b, h: [('bad', 'state 3 reached')] if b(h) == 3 else [], max_depth=10,
        on_violation=lambda k, h, d: bad.append(h))
    if st.states != 5 or not st.fixpoint or not bad:
        failures.append(f'bfs.explore toy model: states={st.states} fixpoint={st.fixpoint} violations={len(bad)}')

    # the event oracle must flag a deliberately faulty stand-in (drops the last change of every atom)
    def faulty_rows(trace):
        rows = hop.change_log(trace)
        return rows[:-1]

    if not any(set(faulty_rows(t)) != set(hop.change_log(t)) for t in hop.all_traces(1, 2, 3)):
        failures.append('event oracle cannot distinguish a faulty stand-in')

    for mod in ('geom',):
        try:
            m = __import__(f'gvmc.ref.{mod}', fromlist=['selftest'])
        except ImportError:
            continue
        if hasattr(m, 'selftest'):
            failures += m.selftest()

    for f in failures:
        print('SELFTEST-FAIL', f)
    print(f'selftest: {"FAILED" if failures else "ok"}')
    return 2 if failures else 0
