#!/venv/bin/python
"""Run the repository's pinned baseline (the 66 stable tests of /root/.vp/BASELINE.json) on a tree.

usage: tools/baseline.py [REPO_DIR]   (default /repo).  exit 0 iff all 66 stable tests pass.
For a scratch worktree the tests import gemdat from REPO_DIR/src (PYTHONPATH is set accordingly).
"""

import json
import os
import subprocess
import sys
import tempfile
import xml.etree.ElementTree as ET

repo = os.path.abspath(sys.argv[1] if len(sys.argv) > 1 else '/repo')
base = json.load(open('/root/.vp/BASELINE.json'))
want = set(base['stable_pass'])
with tempfile.TemporaryDirectory() as d:
    xml = os.path.join(d, 'j.xml')
    env = dict(os.environ)
    env['PYTHONPATH'] = os.path.join(repo, 'src')
    env.pop('GEMDAT_VERIF', None)
    p = subprocess.run(
        ['/venv/bin/python', '-m', 'pytest', '-ra', '-q', '-p', 'no:cacheprovider', '--timeout=900',
         '--continue-on-collection-errors', f'--junitxml={xml}'],
        cwd=repo, env=env, capture_output=True, text=True,
    )
    passed = set()
    for tc in ET.parse(xml).getroot().iter('testcase'):
        ok = not any(ch.tag in ('failure', 'error', 'skipped') for ch in tc)
        if ok:
            passed.add(f"{tc.get('classname')}::{tc.get('name')}")
missing = sorted(want - passed)
print(f'baseline: {len(want & passed)}/{len(want)} stable tests pass on {repo}')
for m in missing:
    print('  NOT PASSING:', m)
sys.exit(1 if missing else 0)
