#!/bin/bash
# usage: tools/with_patch.sh <patch.diff> <command...>
# Applies the patch to /repo's working tree, runs the command in /verif, and always reverts.
set -u
patch="$1"; shift
if ! git -C /repo diff --quiet; then echo "/repo has uncommitted changes; refusing" >&2; exit 3; fi
git -C /repo apply "$patch" || { echo "patch does not apply" >&2; exit 3; }
trap 'git -C /repo checkout -- . ; find /repo/src -name __pycache__ -prune -exec rm -rf {} + 2>/dev/null' EXIT
cd /verif && "$@"
