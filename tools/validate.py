#!/usr/bin/env python3-vt
"""Validate MANIFEST.json and every evidence/*.json against the schemas in /root/.vp (run with python3-vt)."""
import glob
import json
import sys

import jsonschema

bad = 0
m = json.load(open('/verif/MANIFEST.json'))
jsonschema.validate(m, json.load(open('/root/.vp/MANIFEST.schema.json')))
es = json.load(open('/root/.vp/EVIDENCE.schema.json'))
claimed = {c['property_id']: c for c in m['checks']}
for f in sorted(glob.glob('/verif/evidence/*.json')):
    e = json.load(open(f))
    try:
        jsonschema.validate(e, es)
        pid = e['property_id']
        if pid in claimed and claimed[pid]['level_claimed']['category'] != e['level']:
            raise Exception(f'level mismatch {claimed[pid]["level_claimed"]["category"]} vs {e["level"]}')
    except Exception as x:  # noqa
        bad += 1
        print('INVALID', f, str(x)[:300])
ids = {json.loads(l)['id'] for l in open('/verif/properties.jsonl')}
listed = set(claimed) | {n['property_id'] for n in m.get('not_applicable', [])}
if ids != listed:
    bad += 1
    print('properties not accounted for:', sorted(ids ^ listed))
print('validate: manifest ok;', len(glob.glob('/verif/evidence/*.json')), 'evidence files;', bad, 'problems')
sys.exit(1 if bad else 0)
