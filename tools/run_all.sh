#!/bin/bash
# usage: tools/run_all.sh [tier] [seed ...]   runs every claimed check, one line per (check, seed)
tier="${1:-quick}"; shift
seeds="${*:-0}"
cd "$(dirname "$0")/.."
rc_all=0
for seed in $seeds; do
  for id in $(/venv/bin/python -c "import json;print(' '.join(c['property_id'] for c in json.load(open('MANIFEST.json'))['checks']))" 2>/dev/null); do
    out=$(VERIF_SEED=$seed ./run "$id" --tier "$tier" 2>&1); rc=$?
    line=$(echo "$out" | grep -E "^$id tier=" | tail -1)
    nk=$(echo "$out" | grep -c '^KNOWN-FINDING')
    echo "seed=$seed rc=$rc known=$nk ${line:-$(echo "$out" | tail -2 | tr '\n' ' ')}"
    if [ $rc -ne 0 ]; then rc_all=1; echo "$out" | grep -A1 -E 'VIOLATION|HARNESS' | head -8; fi
  done
done
exit $rc_all
