#!/venv/bin/python
"""Print the detection record (markdown) from /verif/seeded/*/meta.json."""
import glob
import json

rows = []
for p in sorted(glob.glob('/verif/seeded/*/meta.json')):
    m = json.load(open(p))
    notes = (m.get('needs_to_manifest') or '').replace('\n', ' ')
    first = notes.split('. ')[0][:150]
    kinds = m.get('checks', {}).get(m['property'], {}).get('kinds', [])[:2]
    rows.append((m['name'], ', '.join(m.get('detected_by', [])) or 'MISSED', ', '.join(kinds), 'yes' if m.get('initially_missed') else '', (m.get('what_was_strengthened') or '')[:170]))
print('| seeded change | detected by | first violation kinds | initially missed | what the miss led to |')
print('|---|---|---|---|---|')
for r in rows:
    print('| ' + ' | '.join(r) + ' |')
n = len(rows)
miss = sum(1 for r in rows if r[3])
print(f'\n{n} confirmed changes (baseline green, demo fails with / passes without); {n - miss} caught by the check as it stood when the change arrived, {miss} caught only after strengthening; all {sum(1 for r in rows if r[1] != "MISSED")} are caught by the committed checks.')
