#!/venv/bin/python
"""Regenerate /verif/MANIFEST.json from the check modules present in gvmc/checks and validate it."""

import importlib
import json
import os
import sys

sys.path.insert(0, '/verif')
sys.path.insert(1, '/repo/src')
ROOT = '/verif'
props = [json.loads(l) for l in open(f'{ROOT}/properties.jsonl')]

PENDING_REASON = 'check not built yet in this round (planned in DESIGN.md section 2); not claimed until it exists and has caught a seeded change'

checks = []
na = []
engines = {}
for p in props:
    pid = p['id']
    path = f'{ROOT}/gvmc/checks/{pid.lower()}.py'
    if not os.path.exists(path):
        na.append({'property_id': pid, 'reason': PENDING_REASON})
        continue
    mod = importlib.import_module(f'gvmc.checks.{pid.lower()}')
    if getattr(mod, 'NOT_CLAIMED', None):
        na.append({'property_id': pid, 'reason': mod.NOT_CLAIMED})
        continue
    eng = getattr(mod, 'ENGINE', 'E1-trace-explorer')
    engines.setdefault(eng, []).append(pid)
    checks.append(
        {
            'property_id': pid,
            'quick_cmd': f'./run {pid} --tier quick',
            'thorough_cmd': f'./run {pid} --tier thorough',
            'evidence_file': f'/verif/evidence/{pid}.json',
            'replay_cmd_template': f'./run {pid} --replay {{path}}',
            'engine': eng,
            'level_claimed': {
                'category': mod.LEVEL,
                'text': mod.LEVEL_TEXT,
                'design_ref': f'DESIGN.md section 2, {pid}',
            },
            'level_note': mod.LEVEL_NOTE,
            'technique': mod.TECHNIQUE,
        }
    )

ENGINE_DESCR = {
    'E1-trace-explorer': ('gvmc/core.py + gvmc/ref/hop.py', 'bounded-exhaustive trace / input-shape enumeration of a small model, every trace executed on the real GEMDAT code and compared with a pure-Python reference model, sharded over 16 processes'),
    'E2-bfs': ('gvmc/bfs.py', 'explicit-state breadth-first search over operation histories on real objects (history = state id, canonical hash of the real internal state)'),
    'E2-faults': ('gvmc/faults.py', 'write-log recorder and crash-state enumerator (every byte prefix of every recorded write) with recovery through the real loaders'),
}
manifest = {
    'version': 1,
    'setup_cmd': '/venv/bin/python -m compileall -q /verif/gvmc && ./run SELFTEST',
    'hooks': {
        'guard': 'GEMDAT_VERIF',
        'enable': 'no source hooks are needed: checks import /repo/src directly (PYTHONPATH) and drive module-level seams; GEMDAT_VERIF=1 is exported by ./run but read by nothing in /repo',
        'baseline_off_cmd': 'cd /repo && /venv/bin/python -m pytest -ra -q -p no:cacheprovider --timeout=900 --continue-on-collection-errors',
        'source_commits': [],
        'add_only': True,
    },
    'engines': [
        {'name': k, 'path': ENGINE_DESCR[k][0], 'serves_properties': v, 'kind_free_text': ENGINE_DESCR[k][1]}
        for k, v in engines.items()
    ],
    'checks': checks,
    'notes': 'All checks are model-checking style bounded-exhaustive explorations (trace / input-shape enumeration, explicit-state BFS over API histories, crash-point enumeration of the recorded write log) that drive the real implementation and compare it with executable reference models; see DESIGN.md (sections 5: defects found and fixed or recorded, 7: corrections to the machinery, 8: which seeded changes each check catches, 11: enumeration rules). Open findings are listed in known_findings.json and printed as KNOWN-FINDING lines (C10, C18, C20). Exit 0 = held on everything explored, 1 = VIOLATION line(s), 2 = harness error (no verdict).',
    'not_applicable': na,
}
json.dump(manifest, open(f'{ROOT}/MANIFEST.json', 'w'), indent=1)

import subprocess

subprocess.run(['python3-vt', f'{ROOT}/tools/validate.py'], check=True)
print(f'MANIFEST.json: {len(checks)} checks, {len(na)} not claimed; valid')
