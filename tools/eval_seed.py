#!/venv/bin/python
"""Evaluate one seeded change against the checks.

usage: tools/eval_seed.py <PROPERTY_ID> <seed_dir_with_patch.diff_demo.py_notes.md> <name> [extra check ids...]

 1. confirms, in a scratch worktree of /repo (removed afterwards), that the patch applies, that the 66
    stable baseline tests still pass with it, that demo.py exits non-zero with it and 0 without;
 2. applies the patch to /repo, runs the property's quick check (and any extra checks), records the
    outcome, and reverts /repo (git checkout -- .);
 3. stores everything under /verif/seeded/<name>/ (patch.diff, demo.py, notes.md, meta.json).
"""

import json
import os
import shutil
import subprocess
import sys
import time

pid, src, name = sys.argv[1], os.path.abspath(sys.argv[2]), sys.argv[3]
extra = sys.argv[4:]
patch = os.path.join(src, 'patch.diff')
demo = os.path.join(src, 'demo.py')
wt = f'/tmp/evalwt-{name}'
meta = {'property': pid, 'name': name, 'evaluated_at': time.strftime('%Y-%m-%dT%H:%M:%S'), 'repo_head': subprocess.check_output(['git', '-C', '/repo', 'log', '-1', '--format=%h']).decode().strip()}


def sh(cmd, **kw):
    return subprocess.run(cmd, shell=True, capture_output=True, text=True, **kw)


if sh('git -C /repo diff --quiet').returncode != 0:
    sys.exit('/repo has uncommitted changes; refusing')

# ---- 1. scratch worktree
sh(f'git -C /repo worktree remove --force {wt}')
sh(f'git -C /repo worktree add --detach {wt} HEAD')
try:
    r = sh(f'git -C {wt} apply {patch}')
    meta['patch_applies'] = r.returncode == 0
    if not meta['patch_applies']:
        meta['error'] = r.stderr[-500:]
    else:
        r = sh(f'/venv/bin/python /verif/tools/baseline.py {wt}')
        meta['baseline_with_patch'] = r.stdout.strip().splitlines()[0] if r.stdout.strip() else r.stderr[-300:]
        meta['baseline_passes_with_patch'] = r.returncode == 0
        env = dict(os.environ, PYTHONPATH=f'{wt}/src', PYTHONHASHSEED='0', PYTHONWARNINGS='ignore')
        r1 = subprocess.run(['/venv/bin/python', demo], capture_output=True, text=True, env=env, cwd=wt, timeout=900)
        meta['demo_rc_with_patch'] = r1.returncode
        meta['demo_output_with_patch'] = (r1.stdout + r1.stderr)[-600:]
        sh(f'git -C {wt} checkout -- .')
        r0 = subprocess.run(['/venv/bin/python', demo], capture_output=True, text=True, env=env, cwd=wt, timeout=900)
        meta['demo_rc_without_patch'] = r0.returncode
finally:
    sh(f'git -C /repo worktree remove --force {wt}')
    shutil.rmtree(wt, ignore_errors=True)

confirmed = meta.get('patch_applies') and meta.get('baseline_passes_with_patch') and meta.get('demo_rc_with_patch', 0) != 0 and meta.get('demo_rc_without_patch', 1) == 0
meta['confirmed_property_breaking_and_tests_green'] = bool(confirmed)

# ---- 2. run the checks against /repo with the patch applied
results = {}
if meta.get('patch_applies'):
    r = sh(f'git -C /repo apply {patch}')
    try:
        for cid in [pid] + extra:
            t0 = time.time()
            rr = sh(f"./run {cid} --tier {os.environ.get('EVAL_TIER', 'quick')}", cwd='/verif')
            lines = rr.stdout.splitlines()
            kinds = [l.strip().split(' ')[0].replace('kind=', '') for l in lines if l.strip().startswith('kind=')]
            results[cid] = {'rc': rr.returncode, 'violation_lines': sum(1 for l in lines if l.startswith('VIOLATION')), 'kinds': kinds, 'wall_s': round(time.time() - t0, 1),
                            'summary': next((l for l in lines if l.startswith(cid + ' tier=')), '')[:200]}
    finally:
        sh('git -C /repo checkout -- .')
        sh("find /repo/src -name __pycache__ -prune -exec rm -rf {} +")
meta['checks'] = results
meta['detected_by'] = [c for c, v in results.items() if v['rc'] == 1 and v['violation_lines'] > 0]

# ---- 3. store
if confirmed:
    out = f'/verif/seeded/{name}'
    os.makedirs(out, exist_ok=True)
    shutil.copy(patch, out + '/patch.diff')
    shutil.copy(demo, out + '/demo.py')
    if os.path.exists(os.path.join(src, 'notes.md')):
        shutil.copy(os.path.join(src, 'notes.md'), out + '/notes.md')
        meta['needs_to_manifest'] = open(os.path.join(src, 'notes.md')).read()[:1500]
    meta['what_was_run'] = ['tools/baseline.py on a scratch worktree with the patch (66 stable tests)', 'demo.py with and without the patch', f"git -C /repo apply patch.diff; ./run <ID> --tier {os.environ.get('EVAL_TIER', 'quick')}; git -C /repo checkout -- ."]
    json.dump(meta, open(out + '/meta.json', 'w'), indent=1)
print(json.dumps({k: meta[k] for k in ('name', 'confirmed_property_breaking_and_tests_green', 'detected_by') if k in meta}), {c: (v['rc'], v['kinds'][:3]) for c, v in results.items()})
if not confirmed:
    print('NOT CONFIRMED:', {k: meta.get(k) for k in ('patch_applies', 'baseline_with_patch', 'demo_rc_with_patch', 'demo_rc_without_patch', 'error')})
