#!/bin/bash
# Re-run every stored seeded change against the current checks WITHOUT touching /repo: each patch is applied to a
# scratch worktree (removed at the end) and the target property's quick check runs against it via GVMC_TREE.
# usage: tools/regress_seeds.sh [name-pattern]
pat="${1:-*}"
wt=/tmp/regwt-$$
git -C /repo worktree add -q --detach $wt HEAD || exit 2
trap 'git -C /repo worktree remove --force '$wt' 2>/dev/null; rm -rf '$wt'' EXIT
ok=0; bad=0
for d in /verif/seeded/$pat/; do
  name=$(basename $d); id=${name%%-*}
  git -C $wt checkout -q -- . ; git -C $wt apply $d/patch.diff || { echo "$name: patch does not apply to current HEAD"; bad=$((bad+1)); continue; }
  tier=$(/venv/bin/python -c "import json;print(json.load(open('$d/meta.json')).get('needs_tier','quick'))" 2>/dev/null)
  out=$(GVMC_TREE=$wt GVMC_OUT=/tmp/gvmc-out timeout 2700 /verif/run $id --tier ${tier:-quick} 2>&1); rc=$?
  kinds=$(echo "$out" | grep -E '^\s+kind=' | awk '{print $1}' | head -3 | tr '\n' ' ')
  if [ $rc -eq 1 ]; then ok=$((ok+1)); echo "$name: detected ($kinds)"; else bad=$((bad+1)); echo "$name: NOT DETECTED rc=$rc"; fi
done
echo "regression: $ok detected, $bad not detected"
[ $bad -eq 0 ]
